"""C15 — Arnoldi returns an orthonormal Krylov basis satisfying the Arnoldi relation.

(A, v) := (Q H Q^H, s Q e1) with a concrete rational orthogonal / unitary Q, symbolic upper-Hessenberg H (positive
sub-diagonal), s > 0, tol > 0.  The real `arnoldi` / `arnoldi_fact` / `arnoldi_eigs` / Arnoldi() run on it; on every path
the returned (zero-padded) Q, H must equal the parameters truncated at the number of steps performed, which gives the
Arnoldi relation, orthonormality and the Hessenberg structure; these are also asserted directly from the outputs."""
import numpy as np

import cola
from cola.linalg.decompositions.arnoldi import arnoldi, arnoldi_eigs

from . import krylov as K

PROPERTY = "C15"
OPTS = {
    "quick": dict(max_paths=24, case_budget_s=150, flip_timeout_ms=8000),
    "thorough": dict(max_paths=64, case_budget_s=600, flip_timeout_ms=20000),
}
ASSUMPTIONS = [
    "inputs: all square A and start vectors with full Krylov data (symbolic Hessenberg H with positive sub-diagonal, s > 0) expressed in "
    "the listed orthonormal bases (2 generic rational Cayley bases per size; unitary for the complex cases)",
    "for max_iters = n the (n+1)-th basis column cannot be a unit vector: it is required to be zero",
    "Householder variant: outside (needs where/nan_to_num on symbolic vectors; only the Gram-Schmidt variant is executed)",
    "arnoldi_eigs: n <= 2 with symbolic H = P diag(w) P^-1 (and its zero-padded versions)",
]


def _setup(T, n, variant, complex_, zero_at=None):
    dt = 'complex128' if complex_ else 'float64'
    Q = K.basis(T, n, variant, complex_, dt)
    z = K.S(T, 0)
    rows = [[z for _ in range(n)] for _ in range(n)]
    for i in range(n):
        for j in range(n):
            if i <= j:
                if complex_:
                    rows[i][j] = _cplx(T, f"h{i}{j}")
                else:
                    rows[i][j] = T.var(f"h{i}{j}")
            elif i == j + 1:
                rows[i][j] = z if zero_at == j else T.var(f"h{i}{j}", positive=True)
    Hm = K.mat(T, rows, dt)
    s = T.var("s", positive=True)
    A = Q @ Hm @ np.conjugate(Q).T
    v = s * Q[:, 0]
    return dt, Q, Hm, s, A, v


def _cplx(T, name):
    re, im = T.var(name + "_re"), T.var(name + "_im")
    if T.sym:
        from symx.core import Sym
        return Sym(re.re, im.re)
    return complex(re, im)


def _check(T, tag, Qd, Hd, Q, Hm, A, n, m, steps, zero_at, tolv):
    T.check(f"{tag}:shapes", tuple(Qd.shape) == (n, m + 1) and tuple(Hd.shape) == (m + 1, m), f"Q {Qd.shape} H {Hd.shape} for max_iters={m}")
    if tuple(Qd.shape) != (n, m + 1) or tuple(Hd.shape) != (m + 1, m):
        return
    k = steps
    T.check(f"{tag}:steps<=min(max_iters,n)", 0 <= k <= min(m, n), f"{k} steps")
    if zero_at is not None:
        T.check(f"{tag}:stops-at-breakdown", k <= zero_at + 1, f"{k} steps although h[{zero_at + 1},{zero_at}] = 0")
    dt = Qd.dtype
    # Arnoldi relation on the zero-padded outputs (the padding must be exactly zero for this to hold)
    T.eq(f"{tag}:A Q[:, :k] == Q H[:, :k]", A @ Qd[:, :k], Qd @ Hd[:, :k], dtype=False)
    kq = min(k + 1, n)
    # parameters
    T.eq(f"{tag}:H==Hessenberg-of-(A,v)", Hd[:min(k + 1, n), :k], Hm[:min(k + 1, n), :k], dtype=False)
    T.eq(f"{tag}:Q==Krylov-basis[:k]", Qd[:, :k], Q[:, :k], dtype=False)
    T.eq(f"{tag}:Q^HQ==I[:k]", np.conjugate(Qd[:, :k]).T @ Qd[:, :k], K.eye_like(T, k, dt), dtype=False)
    if k < n and (zero_at is None or zero_at >= k):
        # last basis vector: unit unless the clipped normalisation (norm < tol/2) kicked in
        last = Qd[:, k]
        big = Hm[k, k - 1].real >= tolv / 2 if k >= 1 else True
        if k >= 1:
            if bool(big):
                T.eq(f"{tag}:last-column-unit", last, Q[:, k], dtype=False)
        else:
            T.eq(f"{tag}:first-column", last, Q[:, 0], dtype=False)
    # padding is zero
    if k < m:
        T.eq(f"{tag}:H-padding-zero", Hd[:, k:], K.zeros_like_mode(T, (m + 1, m - k), dt), dtype=False)
        if k + 1 < m + 1:
            T.eq(f"{tag}:Q-padding-zero", Qd[:, k + 1:], K.zeros_like_mode(T, (n, m - k), dt), dtype=False)
    # Hessenberg structure and non-negative sub-diagonal
    low = [Hd[i, j] for i in range(m + 1) for j in range(m) if i > j + 1]
    if low:
        T.eq(f"{tag}:upper-Hessenberg", K.mat(T, [[_it(T, x) for x in low]], dt), K.zeros_like_mode(T, (1, len(low)), dt), dtype=False)
    T.true(f"{tag}:subdiag>=0", [Hd[j + 1, j].real >= 0 for j in range(m)])


def _it(T, x):
    if T.sym:
        from symx.array import SymArray
        return x.raw.item() if isinstance(x, SymArray) else x
    return complex(x)


def case_arnoldi(T, n, max_iters, variant=0, complex_=False, zero_at=None, tol="sym", via="function", tiny=False, real_start=False):
    dt, Q, Hm, s, A, v = _setup(T, n, variant, complex_, zero_at)
    if real_start:
        # complex operator, start vector handed over with a real dtype (identity basis: v = s e_1)
        assert variant < 0
        v = K.mat(T, [[s if i == 0 else K.S(T, 0) for i in range(n)]], 'float64')[0]
    tolv = T.scalar("tol", 'float64', positive=True, form='py') if tol == "sym" else float(tol)
    if tol == "sym":
        T.assume(tolv < 1)
    # well-scaled inputs: the normalisation `new_vec /= clip(norm, a_min=tol/2)` is only a normalisation when the
    # sub-diagonal entries are not below tol/2 (the `tiny` cases demonstrate what happens otherwise: a recorded finding)
    for j in range(n - 1):
        if zero_at == j:
            continue
        if tiny and j == 0:
            T.assume(Hm[1, 0].real < tolv / 2)
        else:
            T.assume(Hm[j + 1, j].real >= tolv / 2)
    Aop = cola.ops.Dense(A)
    if via == "function":
        Qc, Hc, info = arnoldi(Aop, v, max_iters=max_iters, tol=tolv)
    else:
        Qc, Hc, info = cola.linalg.Arnoldi(start_vector=v, max_iters=max_iters, tol=tolv)(Aop)
    steps = info.get("iterations", 1) - 1
    _check(T, "arnoldi", Qc.to_dense(), Hc.to_dense(), Q, Hm, A, n, max_iters, steps, zero_at, tolv)


def case_two_calls(T, n, max_iters):
    """two factorisations of the same size, step count and dtype in one process; both results are examined only after the second call has returned
    (the returned Q and H are lazy operators: they may not share storage with later calls)"""
    dt = 'float64'
    outs, params = [], []
    for c in range(2):
        Q = K.basis(T, n, c, False, dt)
        z = K.S(T, 0)
        rows = [[z for _ in range(n)] for _ in range(n)]
        for i in range(n):
            for j in range(n):
                if i <= j:
                    rows[i][j] = T.var(f"c{c}h{i}{j}")
                elif i == j + 1:
                    rows[i][j] = T.var(f"c{c}h{i}{j}", positive=True)
                    T.assume(rows[i][j] >= 1e-2)
                    T.assume(rows[i][j] <= 1e2)
        Hm = K.mat(T, rows, dt)
        s = T.var(f"c{c}s", positive=True)
        A = Q @ Hm @ Q.T
        outs.append(arnoldi(cola.ops.Dense(A), s * Q[:, 0], max_iters=max_iters, tol=1e-9))
        params.append((Q, Hm, A))
    for c in (0, 1):
        Qc, Hc, info = outs[c]
        Q, Hm, A = params[c]
        _check(T, f"call {c + 1} (examined after both calls)", Qc.to_dense(), Hc.to_dense(), Q, Hm, A, n, max_iters, info.get("iterations", 1) - 1, None, 1e-9)


def case_real_operator_complex_start(T, n, max_iters):
    """real non-symmetric A (concrete generic rationals) with a complex start vector s * d: complex Krylov basis of a real operator"""
    from fractions import Fraction as Fr
    dtA, dtv = 'float64', 'complex128'
    vals = {2: [[2, 1], [-1, 3]], 3: [[2, 1, Fr(1, 2)], [-1, 3, 1], [Fr(1, 3), -2, 1]]}[n]
    A = K.mat(T, [[K.cst(T, Fr(x)) for x in r] for r in vals], dtA)
    s = T.var("s", positive=True)
    d = [(Fr(1), Fr(1, 2)), (Fr(-1, 3), Fr(1)), (Fr(1, 2), Fr(-2, 3))][:n]
    v = K.mat(T, [[s * K.cst(T, re, im) for re, im in d]], dtv)[0]
    Qc, Hc, info = arnoldi(cola.ops.Dense(A), v, max_iters=max_iters, tol=1e-9)
    Qd, Hd = Qc.to_dense(), Hc.to_dense()
    m = min(max_iters, n)
    T.check("shapes", Qd.shape[0] == n and Hd.shape[0] == Hd.shape[1] + 1 and Qd.shape[1] == Hd.shape[0], f"Q {Qd.shape} H {Hd.shape}")
    nv = np.sqrt((np.conjugate(v) @ v).real)
    T.eq("first column == v/||v||", Qd[:, 0] * nv, v, dtype=False)
    T.eq("A Q[:, :m] == Q H[:, :m]", A @ Qd[:, :m], Qd @ Hd[:, :m], dtype=False)
    cols = m if m == n else m + 1
    QH = np.conjugate(Qd[:, :cols]).T
    T.eq("orthonormal columns", QH @ Qd[:, :cols], K.eye_like(T, cols, dtv), dtype=False)


def case_eigs(T, n, max_iters, variant=0):
    """arnoldi_eigs with >= n steps returns the spectrum (n = 2: H = P diag(w) P^-1 symbolic)"""
    dt = 'float64'
    Q = K.basis(T, n, variant, False, dt)
    # H = P diag(w) P^-1 with a concrete invertible P and symbolic eigenvalues; h10 = -3 (w0 - w1) / ... > 0 is assumed
    P = K.mat(T, [[K.S(T, 1), K.S(T, 2)], [K.S(T, 1), K.S(T, 3)]], dt)
    Pinv = K.mat(T, [[K.S(T, 3), K.S(T, -2)], [K.S(T, -1), K.S(T, 1)]], dt)
    w = [T.var("w0"), T.var("w1")]
    z = K.S(T, 0)
    Hm = P @ K.mat(T, [[w[0], z], [z, w[1]]], dt) @ Pinv
    T.assume(Hm[1, 0] >= 1e-3)
    s = T.var("s", positive=True)
    A = Q @ Hm @ Q.T
    v = s * Q[:, 0]
    if T.sym:
        from symx import lapack
        lapack.register("eig", K.raw(T, Hm), (K.raw(T, K.mat(T, [[w[0], w[1]]], dt))[0], K.raw(T, P)))
    vals, vecs, info = arnoldi_eigs(cola.ops.Dense(A), v, max_iters=max_iters, tol=1e-9)
    Vd = vecs.to_dense()
    T.check("eigs:count==n", tuple(vals.shape) == (n, ), f"{vals.shape[0]} eigenvalues returned for an {n}x{n} operator (max_iters={max_iters})")
    if T.sym and tuple(vals.shape) == (n, ):
        T.eq("eigs:values==spectrum", vals, K.mat(T, [[w[0], w[1]]], 'complex128')[0], dtype=False)
        T.eq("eigs:A V == V diag(w)", A @ Vd, Vd * vals[None, :], dtype=False)
    elif tuple(vals.shape) == (n, ):
        T.eq("eigs:A V == V diag(w)", A @ Vd, Vd * vals[None, :], dtype=False)


def case_batched(T, n, max_iters, variant=0):
    """two start vectors in one call: s1 Q e1 and s2 Q e1 (same Krylov data, unrelated scales)"""
    dt, Q, Hm, s, A, v = _setup(T, n, variant, False)
    s2 = T.var("s2", positive=True)
    from .c14 import _stack_cols
    V = _stack_cols(T, [s * Q[:, 0], s2 * Q[:, 0]], dt)
    for j in range(n - 1):
        T.assume(Hm[j + 1, j].real >= 1e-9)  # well-scaled and no early stop: all min(max_iters, n) steps are performed
        T.assume(Hm[j + 1, j].real > 1e-9 * Hm[1, 0].real)
    Qb, Hb, info = arnoldi(cola.ops.Dense(A), V, max_iters=max_iters, tol=1e-9)
    Qa, Ha = Qb.A, Hb.A
    T.check("batched:shapes", tuple(Qa.shape) == (2, n, max_iters + 1) and tuple(Ha.shape) == (2, max_iters + 1, max_iters), f"{Qa.shape} {Ha.shape}")
    k = min(max_iters, n)
    for b in range(2):
        T.eq(f"batched[{b}]:relation", A @ Qa[b][:, :k], Qa[b] @ Ha[b][:, :k], dtype=False)
        T.eq(f"batched[{b}]:Q", Qa[b][:, :k], Q[:, :k], dtype=False)
        T.eq(f"batched[{b}]:H", Ha[b][:min(k + 1, n), :k], Hm[:min(k + 1, n), :k], dtype=False)


def case_batched_blocks(T, n, max_iters, variant=0):
    """two start vectors with Krylov spaces of different dimension in one call: H = H1 (+) H2 (h[n1, n1-1] = 0), start vectors
    Q e_1 (breaks down after n1 steps) and Q e_{n1+1} (needs n - n1 steps)"""
    n1 = 1
    dt, Q, Hm, s, A, v = _setup(T, n, variant, False, zero_at=n1 - 1)
    # make the upper-right coupling block zero so that span(Q e_{n1+1}, ...) is invariant as well
    z = K.S(T, 0)
    rows = [[_it(T, Hm[i, j]) if not (i < n1 <= j) else z for j in range(n)] for i in range(n)]
    Hm = K.mat(T, rows, dt)
    A = Q @ Hm @ Q.T
    s2 = T.var("s2", positive=True)
    for j in range(n1, n - 1):
        T.assume(Hm[j + 1, j].real >= 1e-3)
        T.assume(Hm[j + 1, j].real > 1e-9 * Hm[n1 + 1, n1].real)
    from .c14 import _stack_cols
    V = _stack_cols(T, [s * Q[:, 0], s2 * Q[:, n1]], dt)
    Qb, Hb, info = arnoldi(cola.ops.Dense(A), V, max_iters=max_iters, tol=1e-9)
    Qa, Ha = Qb.A, Hb.A
    k2 = min(max_iters, n - n1)
    T.eq("blocks[0]:first-column", Qa[0][:, 0], Q[:, 0], dtype=False)
    T.eq("blocks[0]:H[0,0]", Ha[0][0, 0], Hm[0, 0], dtype=False)
    T.eq("blocks[1]:Q", Qa[1][:, :k2], Q[:, n1:n1 + k2], dtype=False)
    T.eq("blocks[1]:H", Ha[1][:k2, :k2], Hm[n1:n1 + k2, n1:n1 + k2], dtype=False)
    T.eq("blocks[1]:relation", A @ Qa[1][:, :k2], Qa[1] @ Ha[1][:, :k2], dtype=False)


def cases(tier, seed):
    out = []
    sizes = (2, 3) if tier == "quick" else (2, 3, 4, 5)
    for n in sizes:
        for variant in (0, 1):
            for m in sorted({1, n - 1, n, n + 1, n + 2} - {0}):
                if variant == 1 and tier == "quick" and m not in (n, n + 1):
                    continue
                out.append((f"real:n{n}v{variant}m{m}", case_arnoldi, dict(n=n, max_iters=m, variant=variant)))
        for m in (n, n + 2):
            out.append((f"fixedtol:n{n}m{m}", case_arnoldi, dict(n=n, max_iters=m, tol=1e-7)))
            out.append((f"class:n{n}m{m}", case_arnoldi, dict(n=n, max_iters=m, tol=1e-7, via="class")))
        out.append((f"tol0:n{n}m{n + 3}", case_arnoldi, dict(n=n, max_iters=n + 3, tol=1e-18)))
        out.append((f"two-calls:n{n}m{n}", case_two_calls, dict(n=n, max_iters=n), dict(partial_ok=True)))
        out.append((f"two-calls:n{n}m{n - 1}", case_two_calls, dict(n=n, max_iters=n - 1), dict(partial_ok=True)))
        if n == 2:
            out.append((f"tiny:n{n}", case_arnoldi, dict(n=n, max_iters=n, tol=1e-7, tiny=True), dict(validate=False)))
        for z in range(1, n - 1):
            out.append((f"breakdown:n{n}z{z}", case_arnoldi, dict(n=n, max_iters=n + 1, zero_at=z, tol=1e-7)))
    if tier == "thorough":
        out.append(("real:n4v0m4-quick", case_arnoldi, dict(n=4, max_iters=4, tol=1e-7)))
    else:
        out.append(("fixedtol:n4m4", case_arnoldi, dict(n=4, max_iters=4, tol=1e-7)))
        out.append(("fixedtol:n4m2", case_arnoldi, dict(n=4, max_iters=2, tol=1e-7)))
    for n in ((2, 3) if tier == "quick" else (2, 3, 4)):
        for m in (1, n, n + 1):
            out.append((f"complex:n{n}m{m}", case_arnoldi, dict(n=n, max_iters=m, complex_=True, tol=1e-7)))
    for n, m in ((2, 1), (2, 2), (3, 2), (3, 3)):
        out.append((f"real-operator-complex-start:n{n}m{m}", case_real_operator_complex_start, dict(n=n, max_iters=m)))
    for n, m in ((2, 2), (3, 2), (3, 4)):
        out.append((f"complex-real-start:n{n}m{m}", case_arnoldi, dict(n=n, max_iters=m, variant=-1, complex_=True, real_start=True)))
        out.append((f"complex-real-start-class:n{n}m{m}", case_arnoldi, dict(n=n, max_iters=m, variant=-1, complex_=True, real_start=True, via="class", tol=1e-7)))
    for variant in (0, 1):
        for m in (2, 3, 5):
            out.append((f"eigs2:v{variant}m{m}", case_eigs, dict(n=2, max_iters=m, variant=variant)))
    for n in (3, ):
        for m in (2, n, n + 1):
            out.append((f"batched:n{n}m{m}", case_batched, dict(n=n, max_iters=m)))
    for n, m in ((3, 3), (4, 4), (3, 2)):
        out.append((f"batched-blocks:n{n}m{m}", case_batched_blocks, dict(n=n, max_iters=m, variant=-1)))
    return out


BOUNDS = dict(
    quick="n in {2,3} (+ n = 4 with fixed tol); max_iters in {1, n-1, n, n+1, n+2, n+3}; 2 rational orthogonal bases per size; complex n in {2,3} "
    "with a rational unitary basis; breakdown at every interior index; symbolic and fixed tol; function and Arnoldi() object; two batched "
    "start vectors; arnoldi_eigs for n = 2 with max_iters in {2,3,5}", thorough="adds n = 4 symbolic tol and complex n = 4",
    values="Hessenberg entries, s > 0, 0 < tol < 1 symbolic; each stopping index / clip branch is a path, coverage checked by z3")
BOUNDS["added"] = 'two factorisations of the same size / step count in one process, examined after both calls Thorough tier: n <= 5.'

"""Shared by the tree-based checks (C01, C02, C03, C05, C08, C18, C20): a JSON-able description language
for operator expression trees, a builder that constructs the real cola operator through the public
constructors, and an *independent* reference interpreter (`Ref`) that builds the represented matrix
entry by entry from the mathematical index formulas on the same symbols."""
import itertools

import numpy as np

import cola
from cola import ops


# ------------------------------------------------------------------------------------------------
# reference matrices: 2-D numpy arrays (object dtype in symbolic mode, complex128 in concrete mode)
# plus the dtype the dense computation would have
# ------------------------------------------------------------------------------------------------
class Ref:
    def __init__(s, a, dt):
        s.a = a
        s.dt = np.dtype(dt)

    @property
    def shape(s):
        return s.a.shape


def _num(T):
    return object if T.sym else complex


def rzeros(T, m, n):
    a = np.empty((m, n), dtype=_num(T))
    if T.sym:
        from symx.core import C
        z = C(0)
        for i in range(m):
            for j in range(n):
                a[i, j] = z
    else:
        a[...] = 0
    return a


def rfrom(T, arr):
    """2-D leaf payload -> reference entries"""
    if T.sym:
        from symx.array import _raw
        return _raw(arr).copy()
    return np.asarray(arr).astype(complex)


def r_one(T):
    if T.sym:
        from symx.core import C
        return C(1)
    return 1.0


def conj_(x):
    return x.conjugate()


def ref_eye(T, n, dt):
    a = rzeros(T, n, n)
    for i in range(n):
        a[i, i] = r_one(T)
    return Ref(a, dt)


def ref_kron(T, A, B):
    m, n = A.shape
    p, q = B.shape
    a = rzeros(T, m * p, n * q)
    for i in range(m):
        for j in range(n):
            for k in range(p):
                for l in range(q):
                    a[i * p + k, j * q + l] = A.a[i, j] * B.a[k, l]
    return Ref(a, np.promote_types(A.dt, B.dt))


def ref_matmul(T, A, B):
    m, n = A.shape
    n2, q = B.shape
    assert n == n2
    a = rzeros(T, m, q)
    for i in range(m):
        for j in range(q):
            acc = a[i, j]
            for k in range(n):
                acc = acc + A.a[i, k] * B.a[k, j]
            a[i, j] = acc
    return Ref(a, np.promote_types(A.dt, B.dt))


def ref_add(T, A, B, dt=None):
    a = rzeros(T, *A.shape)
    for i in range(A.shape[0]):
        for j in range(A.shape[1]):
            a[i, j] = A.a[i, j] + B.a[i, j]
    return Ref(a, dt or np.promote_types(A.dt, B.dt))


def ref_scale(T, c, A, dt=None):
    a = rzeros(T, *A.shape)
    for i in range(A.shape[0]):
        for j in range(A.shape[1]):
            a[i, j] = c * A.a[i, j]
    return Ref(a, dt or A.dt)


def ref_T(T, A):
    a = rzeros(T, A.shape[1], A.shape[0])
    for i in range(A.shape[0]):
        for j in range(A.shape[1]):
            a[j, i] = A.a[i, j]
    return Ref(a, A.dt)


def ref_H(T, A):
    a = rzeros(T, A.shape[1], A.shape[0])
    for i in range(A.shape[0]):
        for j in range(A.shape[1]):
            a[j, i] = conj_(A.a[i, j])
    return Ref(a, A.dt)


def ref_blockdiag(T, blocks):
    R = sum(b.shape[0] for b in blocks)
    Cc = sum(b.shape[1] for b in blocks)
    a = rzeros(T, R, Cc)
    r = c = 0
    dt = blocks[0].dt
    for b in blocks:
        for i in range(b.shape[0]):
            for j in range(b.shape[1]):
                a[r + i, c + j] = b.a[i, j]
        r += b.shape[0]
        c += b.shape[1]
        dt = np.promote_types(dt, b.dt)
    return Ref(a, dt)


def ref_index(T, A, rows, cols):
    a = rzeros(T, len(rows), len(cols))
    for i, r in enumerate(rows):
        for j, c in enumerate(cols):
            a[i, j] = A.a[r, c]
    return Ref(a, A.dt)


def ref_concat(T, parts, axis):
    if axis == 0:
        R = sum(p.shape[0] for p in parts)
        a = rzeros(T, R, parts[0].shape[1])
        r = 0
        for p in parts:
            a[r:r + p.shape[0], :] = p.a
            r += p.shape[0]
    else:
        Cc = sum(p.shape[1] for p in parts)
        a = rzeros(T, parts[0].shape[0], Cc)
        c = 0
        for p in parts:
            a[:, c:c + p.shape[1]] = p.a
            c += p.shape[1]
    dt = parts[0].dt
    for p in parts[1:]:
        dt = np.promote_types(dt, p.dt)
    return Ref(a, dt)


def expected(T, R, dt=None):
    """reference -> array comparable by T.eq (carries the expected dtype)"""
    dt = np.dtype(dt or R.dt)
    if T.sym:
        from symx.array import W
        return W(R.a, dt)
    a = R.a
    if dt.kind != 'c':
        a = a.real
    return a.astype(dt)


def expected_arr(T, a, dt):
    dt = np.dtype(dt)
    if T.sym:
        from symx.array import W
        return W(np.asarray(a, dtype=object), dt)
    a = np.asarray(a)
    if dt.kind != 'c':
        a = a.real
    return a.astype(dt)


# ------------------------------------------------------------------------------------------------
# builder: tree description -> (cola operator, Ref)
# ------------------------------------------------------------------------------------------------
def slice_indices(sl, n):
    """('s', start, stop, step) | ('i', [..])  -> python index object, list of selected indices"""
    if sl[0] == 's':
        s = slice(sl[1], sl[2], sl[3])
        return s, list(range(n))[s]
    idx = np.array(sl[1], dtype=np.int64)
    return idx, [int(i) % n for i in sl[1]]


def build(T, tree, pfx="L"):
    """returns (op, Ref).  Leaf payloads are named after their position in the tree (pfx)."""
    kind = tree[0]
    if kind == "dense":
        _, m, n, dt = tree
        A = T.arr(pfx, (m, n), dt)
        return ops.Dense(A), Ref(rfrom(T, A), dt)
    if kind == "tri":
        _, n, lower, dt = tree
        A = T.arr(pfx, (n, n), dt)
        A = A.copy()
        for i in range(n):
            for j in range(n):
                if (j > i) if lower else (j < i):
                    A[i, j] = 0.
        return ops.Triangular(A, lower=bool(lower)), Ref(rfrom(T, A), dt)
    if kind == "scalar":
        _, n, dt = tree
        c = T.scalar(pfx + "c", dt)
        I = ref_eye(T, n, dt)
        ce = rfrom(T, c.reshape(1, 1))[0, 0]
        return ops.ScalarMul(c, (n, n), dtype=np.dtype(dt)), ref_scale(T, ce, I)
    if kind == "identity":
        _, n, dt = tree
        return ops.Identity((n, n), np.dtype(dt)), ref_eye(T, n, dt)
    if kind == "diag":
        _, n, dt = tree
        d = T.arr(pfx + "d", (n, ), dt)
        R = rzeros(T, n, n)
        dd = rfrom(T, d.reshape(n, 1))
        for i in range(n):
            R[i, i] = dd[i, 0]
        return ops.Diagonal(d), Ref(R, dt)
    if kind == "tridiag":
        _, n, dt = tree
        al = T.arr(pfx + "al", (n - 1, ), dt)
        be = T.arr(pfx + "be", (n, ), dt)
        ga = T.arr(pfx + "ga", (n - 1, ), dt)
        R = rzeros(T, n, n)
        a_, b_, g_ = rfrom(T, al.reshape(-1, 1)), rfrom(T, be.reshape(-1, 1)), rfrom(T, ga.reshape(-1, 1))
        for i in range(n):
            R[i, i] = b_[i, 0]
            if i + 1 < n:
                R[i + 1, i] = a_[i, 0]
                R[i, i + 1] = g_[i, 0]
        return ops.Tridiagonal(al, be, ga), Ref(R, dt)
    if kind == "perm":
        _, p, dt = tree
        n = len(p)
        R = rzeros(T, n, n)
        for i in range(n):
            R[i, p[i]] = r_one(T)
        return ops.Permutation(np.array(p, dtype=np.int64), np.dtype(dt)), Ref(R, dt)
    if kind == "householder":
        _, n, dt = tree
        v = T.arr(pfx + "v", (n, 1), dt)
        beta = T.scalar(pfx + "b", dt, form='py') if np.dtype(dt).kind != 'c' else T.scalar(pfx + "b", 'float64', form='py')
        vv = rfrom(T, v)
        R = rzeros(T, n, n)
        for i in range(n):
            for j in range(n):
                R[i, j] = (r_one(T) if i == j else 0 * r_one(T)) - beta * vv[i, 0] * conj_(vv[j, 0])
        return ops.Householder(v, beta), Ref(R, dt)
    if kind == "kernel":
        _, n, d, bs1, bs2, dt = tree
        x1 = T.arr(pfx + "x", (n, d), dt)
        x2 = T.arr(pfx + "y", (n, d), dt)

        def fn(a, b):
            g = a @ b.T
            return g * g + 1.0

        a_, b_ = rfrom(T, x1), rfrom(T, x2)
        R = rzeros(T, n, n)
        for i in range(n):
            for j in range(n):
                g = 0 * r_one(T)
                for k in range(d):
                    g = g + a_[i, k] * b_[j, k]
                R[i, j] = g * g + r_one(T)
        return ops.Kernel(x1, x2, fn, bs1, bs2), Ref(R, dt)
    if kind == "fft":
        _, n, dt = tree
        R = rzeros(T, n, n)
        if T.sym:
            from symx.lapack import dft_matrix
            R = dft_matrix(n)
        else:
            R = (np.fft.fft(np.eye(n), axis=0, norm='ortho')).astype(complex)
        return ops.FFT(n, np.dtype(dt)), Ref(R, np.result_type(np.dtype(dt), np.complex64))
    if kind == "generic":
        A, R = build(T, tree[1], pfx + "g")
        return ops.LinearOperator(A.dtype, A.shape, matmat=A._matmat), R
    if kind == "nodispatch":
        A, R = build(T, tree[1], pfx + "n")
        return cola.no_dispatch(A), R
    if kind == "selfadj":
        # Dense(X + X^H) declared SelfAdjoint (a true declaration)
        _, n, dt = tree
        X = T.arr(pfx, (n, n), dt)
        Hm = X + X.conj().T
        return cola.SelfAdjoint(ops.Dense(Hm)), Ref(rfrom(T, Hm), dt)
    if kind == "psd":
        # Dense(B^H B) declared PSD (a true declaration)
        _, n, dt = tree
        B = T.arr(pfx, (n, n), dt)
        P = B.conj().T @ B
        return cola.PSD(ops.Dense(P)), Ref(rfrom(T, P), dt)
    if kind in ("product", "sum", "kron", "kronsum"):
        subs = [build(T, t, f"{pfx}{i}") for i, t in enumerate(tree[1:])]
        As = [s[0] for s in subs]
        Rs = [s[1] for s in subs]
        if kind == "product":
            R = Rs[0]
            for r in Rs[1:]:
                R = ref_matmul(T, R, r)
            return ops.Product(*As), R
        if kind == "sum":
            R = Rs[0]
            for r in Rs[1:]:
                R = ref_add(T, R, r)
            return ops.Sum(*As), R
        if kind == "kron":
            R = Rs[0]
            for r in Rs[1:]:
                R = ref_kron(T, R, r)
            return ops.Kronecker(*As), R
        # kronsum: sum_i I x .. x A_i x .. x I
        sizes = [r.shape[0] for r in Rs]
        dt = Rs[0].dt
        for r in Rs[1:]:
            dt = np.promote_types(dt, r.dt)
        tot = None
        for i, r in enumerate(Rs):
            term = None
            for j, n in enumerate(sizes):
                f = r if j == i else ref_eye(T, n, r.dt)
                term = f if term is None else ref_kron(T, term, f)
            tot = term if tot is None else ref_add(T, tot, term)
        tot.dt = dt
        return ops.KronSum(*As), tot
    if kind == "blockdiag":
        _, subs_t, mults = tree
        subs = [build(T, t, f"{pfx}{i}") for i, t in enumerate(subs_t)]
        blocks = []
        for (A, R), m in zip(subs, mults):
            blocks += [R] * m
        return ops.BlockDiag(*[s[0] for s in subs], multiplicities=list(mults)), ref_blockdiag(T, blocks)
    if kind == "dupsum":
        # a sum in which the SAME operator object occurs more than once: ["dupsum", via, sub, other | None]  ->  A + other + A  (A + A without other)
        _, via, sub, other = tree
        A, R = build(T, sub, pfx + "u")
        terms, Rs = [A], [R]
        if other is not None:
            B, RB = build(T, other, pfx + "o")
            terms.append(B)
            Rs.append(RB)
        terms.append(A)
        Rs.append(R)
        Rt = Rs[0]
        for r in Rs[1:]:
            Rt = ref_add(T, Rt, r)
        if via == "ctor":
            return ops.Sum(*terms), Rt
        op = terms[0]
        for t_ in terms[1:]:
            op = op + t_
        return op, Rt
    if kind == "pair":
        # product of two wrappers of the SAME operator object: ["pair", w1, w2, sub], w in I / T / H / Tc / Hc
        _, w1, w2, sub = tree
        A, R = build(T, sub, pfx + "p")

        def wrap(w):
            if w == "I":
                return A, R
            if w == "T":
                return A.T, ref_T(T, R)
            if w == "H":
                return A.H, ref_H(T, R)
            if w == "Tc":
                return ops.Transpose(A), ref_T(T, R)
            return ops.Adjoint(A), ref_H(T, R)

        (A1, R1), (A2, R2) = wrap(w1), wrap(w2)
        return A1 @ A2, ref_matmul(T, R1, R2)
    if kind == "transpose":
        A, R = build(T, tree[1], pfx + "t")
        return ops.Transpose(A), ref_T(T, R)
    if kind == "adjoint":
        A, R = build(T, tree[1], pfx + "h")
        return ops.Adjoint(A), ref_H(T, R)
    if kind == "T":
        A, R = build(T, tree[1], pfx + "t")
        return A.T, ref_T(T, R)
    if kind == "H":
        A, R = build(T, tree[1], pfx + "h")
        return A.H, ref_H(T, R)
    if kind == "sliced":
        _, sub, s0, s1 = tree
        A, R = build(T, sub, pfx + "s")
        i0, rows = slice_indices(s0, A.shape[0])
        i1, cols = slice_indices(s1, A.shape[1])
        return ops.Sliced(A, (i0, i1)), ref_index(T, R, rows, cols)
    if kind == "concat":
        _, subs_t, axis = tree
        subs = [build(T, t, f"{pfx}{i}") for i, t in enumerate(subs_t)]
        return ops.Concatenated(*[s[0] for s in subs], axis=axis), ref_concat(T, [s[1] for s in subs], axis)
    raise ValueError(kind)


def tree_shape(tree):
    k = tree[0]
    if k == "dupsum":
        return tree_shape(tree[2])
    if k == "dense":
        return (tree[1], tree[2])
    if k in ("tri", "scalar", "identity", "diag", "tridiag", "householder", "selfadj", "psd", "fft"):
        return (tree[1], tree[1])
    if k == "kernel":
        return (tree[1], tree[1])
    if k == "perm":
        return (len(tree[1]), ) * 2
    if k in ("generic", "nodispatch"):
        return tree_shape(tree[1])
    if k == "pair":
        s = tree_shape(tree[3])
        a = s if tree[1] == "I" else (s[1], s[0])
        b = s if tree[2] == "I" else (s[1], s[0])
        return (a[0], b[1])
    if k == "product":
        return (tree_shape(tree[1])[0], tree_shape(tree[-1])[1])
    if k == "sum":
        return tree_shape(tree[1])
    if k in ("kron", "kronsum"):
        ss = [tree_shape(t) for t in tree[1:]]
        return (int(np.prod([s[0] for s in ss])), int(np.prod([s[1] for s in ss])))
    if k == "blockdiag":
        ss = [tree_shape(t) for t in tree[1]]
        return (sum(s[0] * m for s, m in zip(ss, tree[2])), sum(s[1] * m for s, m in zip(ss, tree[2])))
    if k in ("transpose", "adjoint", "T", "H"):
        s = tree_shape(tree[1])
        return (s[1], s[0])
    if k == "sliced":
        s = tree_shape(tree[1])
        return (len(slice_indices(tree[2], s[0])[1]), len(slice_indices(tree[3], s[1])[1]))
    if k == "concat":
        ss = [tree_shape(t) for t in tree[1]]
        if tree[2] == 0:
            return (sum(s[0] for s in ss), ss[0][1])
        return (ss[0][0], sum(s[1] for s in ss))
    raise ValueError(k)


def tree_name(tree):
    k = tree[0]
    if k == "dense":
        return f"D{tree[1]}x{tree[2]}{_dtn(tree[3])}"
    if k == "tri":
        return f"Tri{'L' if tree[2] else 'U'}{tree[1]}{_dtn(tree[3])}"
    if k in ("scalar", "identity", "diag", "tridiag", "householder", "selfadj", "psd", "fft"):
        return f"{k}{tree[1]}{_dtn(tree[2])}"
    if k == "kernel":
        return f"kernel{tree[1]}d{tree[2]}b{tree[3]}_{tree[4]}{_dtn(tree[5])}"
    if k == "perm":
        return "perm" + "".join(map(str, tree[1])) + _dtn(tree[2])
    if k in ("generic", "nodispatch", "transpose", "adjoint", "T", "H"):
        return f"{k}({tree_name(tree[1])})"
    if k == "pair":
        return f"pair{tree[1]}{tree[2]}({tree_name(tree[3])})"
    if k == "dupsum":
        return f"dupsum-{tree[1]}({tree_name(tree[2])}" + ("," + tree_name(tree[3]) if tree[3] is not None else "") + ")"
    if k in ("product", "sum", "kron", "kronsum"):
        return f"{k}(" + ",".join(tree_name(t) for t in tree[1:]) + ")"
    if k == "blockdiag":
        return "bd(" + ",".join(f"{tree_name(t)}^{m}" for t, m in zip(tree[1], tree[2])) + ")"
    if k == "sliced":
        return f"sl({tree_name(tree[1])})[{_sln(tree[2])},{_sln(tree[3])}]"
    if k == "concat":
        return f"cat{tree[2]}(" + ",".join(tree_name(t) for t in tree[1]) + ")"
    raise ValueError(k)


def _dtn(dt):
    return {"float32": "f4", "float64": "", "complex64": "c8", "complex128": "c16"}[str(np.dtype(dt))]


def _sln(s):
    if s[0] == 's':
        return ":".join("" if x is None else str(x) for x in s[1:])
    return "i" + "".join(map(str, s[1]))


def to_np(T, x):
    """array returned by cola -> something T.eq accepts (identity; kept for symmetry)"""
    return x


# ---- seeded random operator trees (bounded grammar) ------------------------------------------------------------------------------------
def random_trees(seed, count, max_depth=3, dtypes=("float64", "complex64", "float32", "complex128"), max_dim=6, square=False, square_factors=False):
    """`count` distinct operator trees drawn from the tree grammar with a private generator (reproducible from `seed`).  Shapes are chosen
    top-down so that every combinator is well-formed; dimensions stay <= max_dim.  Not generated (each is tied to a recorded finding or
    needs a true declaration): annotated leaves, FFT, index arrays with repeated entries."""
    import random
    rng = random.Random(seed)
    F8 = "float64"

    def dt():
        return rng.choice(dtypes) if rng.random() < 0.4 else F8

    def leaf(m, n):
        if m != n:
            return ["dense", m, n, dt()]
        kinds = ["dense", "diag", "scalar", "identity", "tri", "perm", "householder"] + (["tridiag"] if n >= 2 else [])
        k = rng.choice(kinds)
        if k == "dense":
            return ["dense", n, n, dt()]
        if k == "tri":
            return ["tri", n, rng.randint(0, 1), dt()]
        if k == "perm":
            p = list(range(n))
            rng.shuffle(p)
            return ["perm", p, rng.choice([F8, "float32", "complex64"])]
        if k == "householder":
            return ["householder", n, rng.choice([F8, "complex128"])]
        if k == "scalar" and square_factors:
            # a complex scalar multiple of a single annotated factor under .H / .T is a recorded finding (annotation inheritance, C02 / C05)
            return ["scalar", n, rng.choice([F8, "float32"])]
        return [k, n, dt()]

    def factor(n):
        """ordered factorisations n = a * b with a, b >= 1"""
        return [(a, n // a) for a in range(1, n + 1) if n % a == 0]

    def gen(m, n, depth):
        if depth == 0 or rng.random() < 0.15:
            return leaf(m, n)
        options = ["product", "sum", "transpose", "adjoint", "T", "H", "sliced", "generic"]
        if m * n > 1:
            options += ["kron", "kron"]
        if m == n and n > 1 and len(factor(n)) > 2:
            options += ["kronsum"]
        if m >= 2 and n >= 2:
            options += ["blockdiag", "blockdiag", "concat"]
        if m >= 2 or n >= 2:
            options += ["concat"]
        if square_factors:
            # every sub-operator square (determinants / inverses factor through the structure): no slices, concatenations, sums, rule-less wrappers
            options = ["product", "product", "transpose", "adjoint", "T", "H"] + (["kron", "kron", "blockdiag", "blockdiag"] if n >= 2 else [])
        k = rng.choice(options)
        d = depth - 1
        if square_factors and k == "product":
            return ["product"] + [gen(n, n, d) for _ in range(rng.choice([2, 2, 3]))]
        if square_factors and k == "kron":
            fs = [f for f in factor(n)]
            a, b = rng.choice(fs)
            return ["kron", gen(a, a, d), gen(b, b, d)]
        if square_factors and k == "blockdiag":
            k1 = rng.choice([c for c in (1, 2, 3) if c <= n])
            a = rng.choice([x for x in range(1, n // k1 + 1)])
            blocks, mult = [gen(a, a, d)], [k1]
            if n - a * k1 > 0:
                blocks.append(gen(n - a * k1, n - a * k1, d))
                mult.append(1)
            return ["blockdiag", blocks, mult]
        if k == "product":
            nf = rng.choice([2, 2, 3])
            dims = [m] + [rng.randint(1, 3) for _ in range(nf - 1)] + [n]
            return ["product"] + [gen(dims[i], dims[i + 1], d) for i in range(nf)]
        if k == "sum":
            return ["sum"] + [gen(m, n, d) for _ in range(rng.choice([2, 2, 3]))]
        if k in ("transpose", "adjoint", "T", "H"):
            return [k, gen(n, m, d)]
        if k == "generic":
            return ["generic", gen(m, n, d)]
        if k == "sliced":
            M, N = min(max_dim, m + rng.randint(0, 2)), min(max_dim, n + rng.randint(0, 2))

            def sel(small, big):
                if small == big and rng.random() < 0.5:
                    return rng.choice([["s", None, None, None], ["s", None, None, -1]])
                if rng.random() < 0.5:
                    idx = rng.sample(range(big), small)
                    return ["i", [i if rng.random() < 0.7 else i - big for i in idx]]
                start = rng.randint(0, big - small)
                return ["s", start, start + small, None]
            return ["sliced", gen(M, N, d), sel(m, M), sel(n, N)]
        if k == "kron":
            (m1, m2), (n1, n2) = rng.choice(factor(m)), rng.choice(factor(n))
            subs = [gen(m1, n1, d), gen(m2, n2, d)]
            if rng.random() < 0.3:
                subs.insert(rng.randint(0, 2), leaf(1, 1))
            return ["kron"] + subs
        if k == "kronsum":
            a, b = rng.choice([f for f in factor(n) if 1 < f[0] < n])
            return ["kronsum", gen(a, a, d), gen(b, b, d)]
        if k == "blockdiag":
            # m = m1 * k1 + m2, n = n1 * k1 + n2 (second block optional)
            k1 = rng.choice([c for c in (1, 2, 3) if c <= min(m, n)])
            cands = [(a, b) for a in range(1, m // k1 + 1) for b in range(1, n // k1 + 1)
                     if (m - a * k1 == 0) == (n - b * k1 == 0)]
            if not cands:
                return gen(m, n, depth)
            a, b = rng.choice(cands)
            blocks, mult = [gen(a, b, d)], [k1]
            if m - a * k1 > 0:
                blocks.append(gen(m - a * k1, n - b * k1, d))
                mult.append(1)
            return ["blockdiag", blocks, mult]
        if k == "concat":
            axis = 0 if (m >= 2 and (n < 2 or rng.random() < 0.5)) else 1
            tot = m if axis == 0 else n
            cut = rng.randint(1, tot - 1)
            if axis == 0:
                return ["concat", [gen(cut, n, d), gen(m - cut, n, d)], 0]
            return ["concat", [gen(m, cut, d), gen(m, n - cut, d)], 1]
        raise AssertionError(k)

    out, seen = [], set()
    tries = 0
    while len(out) < count and tries < 50 * count:
        tries += 1
        if square or square_factors:
            m = n = rng.choice([1, 2, 2, 3, 3, 4])
        else:
            m, n = rng.choice([1, 2, 2, 3, 3, 4]), rng.choice([1, 2, 2, 3, 3, 4])
        t = gen(m, n, rng.randint(1, max_depth))
        name = tree_name(t)
        if name in seen or len(name) > 160 or t[0] in ("dense", ):
            continue
        assert tree_shape(t) == (m, n), (t, m, n)
        seen.add(name)
        out.append(t)
    return out


def lu_friendly(tree):
    """True if no leaf would send the pivoted-LU stand-in into a path explosion: dense / Householder leaves of size <= 2, everything <= 4"""
    k = tree[0]
    if k in ("dense", ):
        return max(tree[1], tree[2]) <= 2
    if k in ("householder", "tridiag"):
        return tree[1] <= 2
    if k in ("tri", "scalar", "identity", "diag", "perm", "selfadj", "psd", "fft", "kernel"):
        return True
    if k == "blockdiag":
        return all(lu_friendly(t) for t in tree[1])
    if k == "concat":
        return all(lu_friendly(t) for t in tree[1])
    return all(lu_friendly(t) for t in tree[1:] if isinstance(t, list) and t and isinstance(t[0], str))

"""C04 — rule selection is total and unambiguous for all kind / annotation / algorithm combinations.

Symbolic execution of the *real* plum resolver (`Resolver.resolve`, `Signature.match`, signature comparisons, precedence
arithmetic) and of the *real* rule conditions on symbolic arguments: an operator argument is a proxy whose kind is a z3
finite-sort variable over the live class lattice, with symbolic annotation / dtype / all-factors-square attributes; an
algorithm argument is a proxy over the algorithm classes.  `isinstance` tests (beartype) on a proxy become disjunctions over
the kinds whose real representative instance passes the test.  Every path of the resolver is explored (depth-first, both
branch directions checked for satisfiability: the exploration is complete); paths ending in Ambiguous / NotFound are
enumerated into concrete tuples by the solver.  The concrete mode enumerates the same finite lattice with real instances
through the real resolver (translator validation of the proxy semantics, and replay)."""
import itertools

import numpy as np
import z3

import cola
import plum
import plum.signature as ps
from cola import ops
from plum import dispatch
from plum.resolver import AmbiguousLookupError, NotFoundLookupError

PROPERTY = "C04"
OPTS = {"quick": dict(case_budget_s=280, validate=True), "thorough": dict(case_budget_s=900, validate=True)}
ASSUMPTIONS = [
    "operator kinds: every class of cola.ops plus the lazy wrappers the library itself produces (IterativeOperatorWInfo, TriangularInv, "
    "LSTSQSolve, LanczosUnary, ArnoldiUnary); Sparse / Jacobian / Hessian / ConvolveND / FFT are not constructible offline or have no rules of "
    "their own and are represented by the generic kind",
    "annotation options {none, SelfAdjoint, PSD, Stiefel, Unitary} (one declared on top of what the kind infers), real / complex dtype, "
    "all-factors-square yes / no for Product / Kronecker / BlockDiag / KronSum",
    "only the resolution step is executed symbolically; what the selected rule does afterwards (including nested dispatch on its factors, whose "
    "tuples are lattice points of their own) is outside this property",
]

_REAL_BEARABLE = ps._is_bearable
ANNS = ["none", "SelfAdjoint", "PSD", "Stiefel", "Unitary"]


def _mk(kind, complex_, square):
    dt = np.complex128 if complex_ else np.float64
    I2 = np.eye(2, dtype=dt) * 2
    R = np.ones((2, 3), dtype=dt)
    D = lambda: ops.Dense(I2.copy())  # noqa
    ns = lambda: (ops.Dense(R.copy()), ops.Dense(R.T.copy()))  # noqa
    if kind == "Dense":
        return D()
    if kind == "Triangular":
        return ops.Triangular(I2.copy())
    if kind == "Diagonal":
        return ops.Diagonal(np.ones(2, dtype=dt) * 2)
    if kind == "Identity":
        return ops.Identity((2, 2), dt)
    if kind == "ScalarMul":
        return ops.ScalarMul(2., (2, 2), dt)
    if kind == "Product":
        return ops.Product(D(), D()) if square else ops.Product(*ns())
    if kind == "Sum":
        return ops.Sum(D(), D())
    if kind == "Kronecker":
        return ops.Kronecker(D(), D()) if square else ops.Kronecker(*ns())
    if kind == "KronSum":
        return ops.KronSum(D(), D())
    if kind == "BlockDiag":
        return ops.BlockDiag(D(), D()) if square else ops.BlockDiag(*ns())
    if kind == "Permutation":
        return ops.Permutation(np.array([1, 0]), dt)
    if kind == "Tridiagonal":
        return ops.Tridiagonal(np.ones(1, dtype=dt), np.ones(2, dtype=dt) * 3, np.ones(1, dtype=dt))
    if kind == "Transpose":
        return ops.Transpose(cola.no_dispatch(D()))
    if kind == "Adjoint":
        return ops.Adjoint(cola.no_dispatch(D()))
    if kind == "Sliced":
        return ops.Sliced(D(), (slice(0, 2), slice(0, 2)))
    if kind == "Concatenated":
        return ops.Concatenated(D(), D(), axis=0)
    if kind == "Householder":
        return ops.Householder(np.ones((2, 1), dtype=dt))
    if kind == "Generic":
        return cola.no_dispatch(D())
    if kind == "IterativeOperatorWInfo":
        from cola.linalg.algorithm_base import IterativeOperatorWInfo
        return IterativeOperatorWInfo(D(), cola.linalg.GMRES())
    if kind == "TriangularInv":
        from cola.linalg.inverse.inv import TriangularInv
        return TriangularInv(ops.Triangular(I2.copy()))
    if kind == "LSTSQSolve":
        from cola.linalg.inverse.pinv import LSTSQSolve
        return LSTSQSolve(D())
    raise ValueError(kind)


KINDS = ["Dense", "Triangular", "Diagonal", "Identity", "ScalarMul", "Product", "Sum", "Kronecker", "KronSum", "BlockDiag", "Permutation",
         "Tridiagonal", "Transpose", "Adjoint", "Sliced", "Concatenated", "Householder", "Generic", "IterativeOperatorWInfo", "TriangularInv",
         "LSTSQSolve"]
HAS_MS = ("Product", "Kronecker", "BlockDiag")


def _algs():
    from cola.linalg.decompositions.decompositions import LU, Arnoldi, Cholesky, Lanczos
    from cola.linalg.eig.lobpcg import LOBPCG
    from cola.linalg.eig.power_iteration import PowerIteration
    from cola.linalg.inverse.pinv import LSTSQ
    from cola.linalg.svd.svd import DenseSVD
    from cola.linalg.trace.diagonal_estimation import Exact, Hutch, HutchPP
    from cola.linalg.unary.unary import Eig, Eigh
    return dict(Auto=cola.linalg.Auto(), CG=cola.linalg.CG(), GMRES=cola.linalg.GMRES(), LU=LU(), Cholesky=Cholesky(), Lanczos=Lanczos(),
                Arnoldi=Arnoldi(), Eig=Eig(), Eigh=Eigh(), Exact=Exact(), Hutch=Hutch(), HutchPP=HutchPP(), LSTSQ=LSTSQ(), DenseSVD=DenseSVD(),
                LOBPCG=LOBPCG(), PowerIteration=PowerIteration())


# function -> list of argument patterns; slot kinds: 'op', ('alg', [admissible names]), ('const', value)
def _patterns():
    f = np.exp
    INV = ["Auto", "CG", "GMRES", "LU", "Cholesky"]
    LOG = ["Auto", "Cholesky", "LU", "Lanczos", "Arnoldi"]
    TR = ["Auto", "Exact", "Hutch"]
    UN = ["Auto", "Eig", "Eigh", "Lanczos", "Arnoldi"]
    return {
        "dot": [["op", "op"]],
        "add": [["op", "op"]],
        "mul": [["op", ("const", 2.0)], ["op", ("const", np.float64(2.0))], ["op", ("const", 2 + 1j)], ["op", ("const", np.array(2.0))], ["op", ("const", 3)]],
        "transpose": [["op"]],
        "adjoint": [["op"]],
        "kron": [["op", "op"]],
        "kronsum": [["op", "op"]],
        "inv": [["op", ("alg", INV)]],
        "pinv": [["op", ("alg", ["Auto", "CG", "LSTSQ"])]],
        "slogdet": [["op", ("alg", LOG), ("alg", TR)]],
        "diag": [["op", ("const", 0), ("alg", ["Auto", "Exact", "Hutch", "HutchPP"])]],
        "trace": [["op", ("alg", ["Auto", "Exact", "Hutch"])]],
        "apply_unary": [[("const", f), "op", ("alg", UN)]],
        "exp": [["op"], ["op", ("alg", UN)]],
        "log": [["op"], ["op", ("alg", UN)]],
        "sqrt": [["op"], ["op", ("alg", UN)]],
        "isqrt": [["op"], ["op", ("alg", UN)]],
        "pow": [["op", ("const", 0.5)], ["op", ("const", 2)], ["op", ("const", 0.5), ("alg", UN)], ["op", ("const", -1), ("alg", UN)],
                ["op", ("const", np.float32(0.5))], ["op", ("const", np.int64(2)), ("alg", UN)], ["op", ("const", np.float64(2.5)), ("alg", UN)]],
        "eig": [["op", ("const", 1), ("const", "LM"), ("alg", ["Auto", "Eig", "Eigh", "Arnoldi", "Lanczos", "LOBPCG", "PowerIteration"])]],
        "svd": [["op", ("const", 1), ("const", "LM"), ("alg", ["Auto", "DenseSVD", "Lanczos", "LOBPCG"])]],
        "cholesky": [["op"]],
        "plu": [["op"]],
    }


# ---- symbolic proxies ---------------------------------------------------------------------------
class _Dec:
    def __init__(s):
        s.pc = []
        s.prefix = []
        s.pos = 0
        s.pending = []
        s.base = []
        s.queries = 0


_D = _Dec()


class SBool:
    __slots__ = ("e", )

    def __init__(s, e):
        s.e = e

    def __bool__(s):
        from symx import smt
        e = z3.simplify(s.e)
        if z3.is_true(e):
            return True
        if z3.is_false(e):
            return False
        if _D.pos < len(_D.prefix):
            d = _D.prefix[_D.pos]
        else:
            rt, _ = smt.check(_D.base + _D.pc + [e], "resolver-branch", timeout_ms=5000)
            rf, _ = smt.check(_D.base + _D.pc + [z3.Not(e)], "resolver-branch", timeout_ms=5000)
            if "unknown" in (rt, rf):
                raise RuntimeError("solver unknown on a finite-domain query")
            t, f = rt == "sat", rf == "sat"
            d = t
            if t and f:
                _D.pending.append(_D.prefix[:_D.pos] + [False])
            _D.prefix = _D.prefix[:_D.pos] + [d]
        _D.pos += 1
        _D.pc.append(e if d else z3.Not(e))
        return d


class _Dtype:
    def __init__(s, cx):
        s.cx = cx

    def __str__(s):
        return "complex128" if bool(SBool(s.cx)) else "float64"


class _Dim:
    def __init__(s, sq, i):
        s.sq, s.i = sq, i

    def __eq__(s, o):
        return SBool(s.sq)

    def __ne__(s, o):
        return SBool(z3.Not(s.sq))

    def __hash__(s):
        return 0  # dimensions may be collected in sets / dict keys: equality stays symbolic


class _Factor:
    def __init__(s, sq):
        s.shape = (_Dim(sq, 0), _Dim(sq, 1))


class SymOp:
    def __init__(s, name, Kind, kc):
        s.name = name
        s.k = z3.Const(name + "_kind", Kind)
        s.kc = kc
        s.ann = z3.Int(name + "_ann")  # index into ANNS
        s.cx = z3.Bool(name + "_complex")
        s.sq = z3.Bool(name + "_factors_square")
        s.dtype = _Dtype(s.cx)
        s.shape = (2, 2)
        s.device = None

    def constraints(s):
        return [s.ann >= 0, s.ann < len(ANNS)]

    def isa(s, annotation):
        n = annotation.__name__
        # declared annotation (hierarchy PSD < SelfAdjoint, Unitary < Stiefel) or inferred by the kind
        subs = {"SelfAdjoint": ["SelfAdjoint", "PSD"], "PSD": ["PSD"], "Stiefel": ["Stiefel", "Unitary"], "Unitary": ["Unitary"], "Annotation": ANNS[1:]}[n]
        decl = z3.Or([s.ann == ANNS.index(x) for x in subs])
        inferred = [s.k == s.kc[KINDS.index(K)] for K in KINDS if _INFERRED.get(K) and any(x in _INFERRED[K] for x in subs)]
        return SBool(z3.Or([decl] + inferred))

    @property
    def Ms(s):
        return [_Factor(s.sq)]


class SymAlg:
    def __init__(s, name, Alg, ac, names):
        s.k = z3.Const(name, Alg)
        s.ac = ac
        s.names = names


_INFERRED = {"Identity": {"Unitary", "PSD"}, "Permutation": {"Unitary"}}
_REPS = {}
_ALGS = {}
_BEAR_CACHE = {}


def _rep(K):
    if K not in _REPS:
        _REPS[K] = _mk(K, False, True)
    return _REPS[K]


def _bear(obj_key, obj, t):
    k = (obj_key, repr(t))
    if k not in _BEAR_CACHE:
        _BEAR_CACHE[k] = bool(_REAL_BEARABLE(obj, t))
    return _BEAR_CACHE[k]


def _sym_bearable(v, t):
    if isinstance(v, SymOp):
        return SBool(z3.Or([v.k == v.kc[i] for i, K in enumerate(KINDS) if _bear("K" + K, _rep(K), t)] + [z3.BoolVal(False)]))
    if isinstance(v, SymAlg):
        return SBool(z3.Or([v.k == v.ac[i] for i, K in enumerate(v.names) if _bear("A" + K, _ALGS[K], t)] + [z3.BoolVal(False)]))
    return _REAL_BEARABLE(v, t)


_SORTS = {}


def _enum(name, values):
    key = (name, tuple(values))
    if key not in _SORTS:
        _SORTS[key] = z3.EnumSort(f"{name}_{len(_SORTS)}", list(values))
    return _SORTS[key]


def explore_resolver(fname, pattern, classify=None, extra=None):
    """all paths of the real resolver on symbolic arguments; returns (n_paths, failing concrete tuples).  With `classify`, a path that
    resolves to signature sig is also 'failing' (with outcome classify(sig)) when classify returns a string; `extra(ops)` adds constraints"""
    from symx import smt
    if not _ALGS:
        _ALGS.update(_algs())
    f = dispatch.functions[fname]
    f._resolve_pending_registrations()
    Kind, kc = _enum("Kind", KINDS)
    args, ops_, algs_, base = [], [], [], []
    for i, slot in enumerate(pattern):
        if slot == "op":
            o = SymOp(f"a{i}", Kind, kc)
            args.append(o)
            ops_.append(o)
            base += o.constraints()
        elif slot[0] == "alg":
            names = list(slot[1])
            Alg, ac = _enum("Alg", names)
            a = SymAlg(f"alg{i}", Alg, ac, names)
            args.append(a)
            algs_.append(a)
        else:
            args.append(slot[1])
    ps._is_bearable = _sym_bearable
    results = []
    try:
        _D.pending = [[]]
        _D.base = base
        while _D.pending:
            _D.prefix = _D.pending.pop()
            _D.pos = 0
            _D.pc = []
            try:
                sig = f._resolver.resolve(tuple(args))
                out = "ok"
                if classify is not None:
                    out = classify(sig) or "ok"
            except AmbiguousLookupError:
                out = "ambiguous"
            except NotFoundLookupError:
                out = "notfound"
            results.append((out, list(_D.pc)))
    finally:
        ps._is_bearable = _REAL_BEARABLE
    if extra is not None:
        base = base + list(extra(ops_))
    # enumerate the failing lattice points
    failing = {}
    for out, pc in results:
        if out == "ok":
            continue
        block = []
        while True:
            r, m = smt.check(base + pc + block, "enumerate-failing", timeout_ms=5000, want_model=True)
            if r != "sat":
                break
            tup = []
            lits = []
            for o in ops_:
                K = str(m.eval(o.k, model_completion=True))
                an = m.eval(o.ann, model_completion=True).as_long()
                cx = z3.is_true(m.eval(o.cx, model_completion=True))
                sq = z3.is_true(m.eval(o.sq, model_completion=True)) if K in HAS_MS else True
                tup.append((K, ANNS[an], cx, sq))
                l = [o.k == m.eval(o.k, model_completion=True), o.ann == an, o.cx == cx]
                if K in HAS_MS:
                    l.append(o.sq == sq)
                lits += l
            for a in algs_:
                A = str(m.eval(a.k, model_completion=True))
                tup.append(A)
                lits.append(a.k == m.eval(a.k, model_completion=True))
            failing[_label(fname, pattern, tup)] = out
            block.append(z3.Not(z3.And(lits)) if lits else z3.BoolVal(False))
    return len(results), failing


def _label(fname, pattern, tup):
    parts = []
    it = iter(tup)
    for slot in pattern:
        if slot == "op":
            K, an, cx, sq = next(it)
            parts.append(f"{K}{'[' + an + ']' if an != 'none' else ''}{'c' if cx else ''}{'' if sq else '~sq'}")
        elif slot[0] == "alg":
            parts.append(next(it))
        else:
            parts.append(repr(slot[1]) if not callable(slot[1]) else "f")
    return f"{fname}({', '.join(parts)})"


def lattice(pattern):
    """all concrete tuples of the bound for an argument pattern"""
    dims = []
    for slot in pattern:
        if slot == "op":
            pts = []
            for K in KINDS:
                for an in ANNS:
                    for cx in (False, True):
                        for sq in ((True, False) if K in HAS_MS else (True, )):
                            pts.append((K, an, cx, sq))
            dims.append(pts)
        elif slot[0] == "alg":
            dims.append(list(slot[1]))
    return itertools.product(*dims)


def _instance(K, an, cx, sq):
    key = (K, an, cx, sq)
    if key not in _INST:
        op = _mk(K, cx, sq)
        if an != "none":
            op = getattr(cola, an)(op)
        _INST[key] = op
    return _INST[key]


_INST = {}


def case_function(T, fname, pattern_index, two_op_limit=None):
    pats = _patterns()[fname]
    pattern = pats[pattern_index]
    if not _ALGS:
        _ALGS.update(_algs())
    n_ops = sum(1 for s in pattern if s == "op")
    if T.sym:
        n_paths, failing = explore_resolver(fname, pattern)
        T.note(dict(function=fname, pattern=str(pattern)[:200], resolver_paths=n_paths, failing=len(failing)))
        T.check(f"{fname}#{pattern_index}:explored", n_paths >= 1)
    else:
        failing = None
        f = dispatch.functions[fname]
        f._resolve_pending_registrations()
    # per-tuple obligations (same labels in both modes: every lattice point is cross-validated against the real resolver)
    for tup in lattice(pattern):
        label = _label(fname, pattern, tup)
        if T.sym:
            T.check(label, label not in failing, failing.get(label, ""))
        else:
            args = []
            it = iter(tup)
            for slot in pattern:
                if slot == "op":
                    args.append(_instance(*next(it)))
                elif slot[0] == "alg":
                    args.append(_ALGS[next(it)])
                else:
                    args.append(slot[1])
            try:
                f._resolver.resolve(tuple(args))
                ok, why = True, ""
            except AmbiguousLookupError as e:
                ok, why = False, "ambiguous"
            except NotFoundLookupError as e:
                ok, why = False, "notfound"
            T.check(label, ok, why)


class _Applied(Exception):
    pass


def case_auto_redispatch(T, fname, n, annotation):
    """the automatic rules choose an algorithm object from the operator's size and annotations and dispatch again: that second resolution must
    succeed as well.  The real function is called on a rule-less n x n operator whose products raise a marker: the call may return (lazy result),
    reach the operator (a rule was selected and started to work) or be refused by the selected rule -- but must not end in a lookup error."""
    import importlib
    import types
    Lm = cola.linalg
    L = types.SimpleNamespace(svd=importlib.import_module("cola.linalg.svd.svd").svd,
                              **{k: getattr(Lm, k) for k in ("inv", "solve", "pinv", "eig", "eigmax", "eigmin", "slogdet", "logdet", "exp", "log", "sqrt",
                                                            "isqrt", "pow", "apply_unary", "diag", "trace")})

    def never(X):
        raise _Applied()
    A = cola.ops.LinearOperator(np.dtype('float64'), (n, n), matmat=never)
    if annotation != "none":
        A = getattr(cola, annotation)(A)
    Auto = cola.linalg.Auto
    calls = {
        "inv": [lambda: L.inv(A) @ np.ones(n), lambda: L.inv(A, Auto()) @ np.ones(n), lambda: L.inv(A, Auto(tol=1e-3, max_iters=3)) @ np.ones(n)],
        "solve": [lambda: L.solve(A, np.ones(n)), lambda: L.solve(A, np.ones((n, 2)), Auto(max_iters=2))],
        "pinv": [lambda: L.pinv(A) @ np.ones(n), lambda: L.pinv(A, Auto(max_iters=2)) @ np.ones(n)],
        "svd": [lambda: L.svd(A, 2, "LM"), lambda: L.svd(A, 2, "LM", Auto()), lambda: L.svd(A, 1, "LM", Auto(max_iters=3))],
        "eig": [lambda: L.eig(A, 2, "LM"), lambda: L.eig(A, 1, "LM", Auto()), lambda: L.eig(A, 2, "SM", Auto(max_iters=3)), lambda: L.eigmax(A), lambda: L.eigmin(A)],
        "slogdet": [lambda: L.slogdet(A), lambda: L.logdet(A), lambda: L.slogdet(A, Auto(max_iters=3), Auto())],
        "unary": [lambda: L.exp(A) @ np.ones(n), lambda: L.log(A, Auto()) @ np.ones(n), lambda: L.sqrt(A) @ np.ones(n), lambda: L.isqrt(A) @ np.ones(n),
                  lambda: L.pow(A, 0.5) @ np.ones(n), lambda: L.pow(A, 2.5, Auto(max_iters=3)) @ np.ones(n), lambda: L.apply_unary(np.exp, A) @ np.ones(n)],
        "diag": [lambda: L.diag(A), lambda: L.diag(A, 1, Auto()), lambda: L.trace(A), lambda: L.trace(A, Auto(tol=1e-2))],
    }[fname]
    from symx import shim
    was = shim.MODE.get("symbolic")
    shim.symbolic(False)  # plain arrays: nothing here depends on values, only on which rule is selected
    try:
        _auto_calls(T, fname, n, annotation, calls)
    finally:
        shim.symbolic(was)


def _auto_calls(T, fname, n, annotation, calls):
    for i, call in enumerate(calls):
        tag = f"{fname}[{i}] on a {'large' if n * n > 1e6 else 'small'} {annotation} operator"
        try:
            call()
            ok, why = True, ""
        except _Applied:
            ok, why = True, ""
        except (AmbiguousLookupError, NotFoundLookupError) as e:
            ok, why = False, f"{type(e).__name__}: " + (str(e).splitlines() or [""])[0][:160]
        except Exception:
            ok, why = True, ""  # refused / failed inside the selected rule: outside this property
        T.check(tag + ": second-level resolution succeeds", ok, why)


def _small_algs():
    """the algorithm objects of `_algs` with tiny iteration caps (same classes, so the same resolution; the rules are really executed here)"""
    from cola.linalg.decompositions.decompositions import LU, Arnoldi, Cholesky, Lanczos
    from cola.linalg.eig.lobpcg import LOBPCG
    from cola.linalg.eig.power_iteration import PowerIteration
    from cola.linalg.inverse.pinv import LSTSQ
    from cola.linalg.svd.svd import DenseSVD
    from cola.linalg.trace.diagonal_estimation import Exact, Hutch, HutchPP
    from cola.linalg.unary.unary import Eig, Eigh
    return dict(Auto=cola.linalg.Auto(), CG=cola.linalg.CG(max_iters=2), GMRES=cola.linalg.GMRES(max_iters=2), LU=LU(), Cholesky=Cholesky(),
                Lanczos=Lanczos(max_iters=2), Arnoldi=Arnoldi(max_iters=2), Eig=Eig(), Eigh=Eigh(), Exact=Exact(), Hutch=Hutch(max_iters=2),
                HutchPP=HutchPP(), LSTSQ=LSTSQ(), DenseSVD=DenseSVD(), LOBPCG=LOBPCG(max_iters=2), PowerIteration=PowerIteration(max_iter=2))


def case_deep(T, fname, pattern_index, first_alg=None):
    """resolution below the first level: the selected rule is executed on a small real instance of every kind / annotation / dtype class /
    algorithm combination of the pattern; whatever it computes, no call further down (a rule recursing into factors, an algorithm object
    handed on to another dispatch function, an automatic choice) may end in a lookup error.  Other exceptions are the selected rule's business."""
    from cola.backends import np_fns
    from symx import shim
    pattern = _patterns()[fname][pattern_index]
    algs = _small_algs()
    was = shim.MODE.get("symbolic")
    shim.symbolic(False)
    saved = (np_fns.vmap, np_fns.linear_transpose)
    shim.functional_additions(np_fns)
    f = dispatch.functions[fname]
    try:
        for tup in lattice(pattern):
            if any(isinstance(x, tuple) and (x[1] not in ("none", "PSD") or not x[3]) for x in tup):
                continue
            if first_alg is not None and next(x for x in tup if isinstance(x, str)) != first_alg:
                continue
            if fname not in ("transpose", "adjoint", "mul", "pinv", "svd") and any(isinstance(x, tuple) and x[0] == "Concatenated" for x in tup):
                continue  # the 4 x 2 representative: functions of square operators recurse until the interpreter's limit (seconds per call)
            args, it = [], iter(tup)
            for slot in pattern:
                if slot == "op":
                    K, an, cx, sq = next(it)
                    op = _mk(K, cx, sq)
                    args.append(op if an == "none" else getattr(cola, an)(op))
                elif slot[0] == "alg":
                    args.append(algs[next(it)])
                else:
                    args.append(slot[1])
            try:
                r = f(*args)
                if isinstance(r, cola.ops.LinearOperator) and fname not in ("transpose", "adjoint"):
                    r @ np.ones(r.shape[-1], dtype=np.complex128)  # lazy results dispatch when they are applied
                ok, why = True, ""
            except (AmbiguousLookupError, NotFoundLookupError) as e:
                ok, why = False, f"{type(e).__name__}: " + (str(e).splitlines() or [""])[0][:140]
            except BaseException as e:  # noqa
                if type(e).__name__ in ("Inconclusive", "PathAbort", "CaseTimeout", "KeyboardInterrupt"):
                    raise
                ok, why = True, ""
            T.check("deep:" + _label(fname, pattern, tup), ok, why)
    finally:
        np_fns.vmap, np_fns.linear_transpose = saved
        shim.symbolic(was)


def cases(tier, seed):
    out = []
    for fname, pats in _patterns().items():
        for i, p in enumerate(pats):
            if sum(1 for s_ in p if s_ == "op") == 1:
                firsts = next((list(s_[1]) for s_ in p if isinstance(s_, tuple) and s_[0] == "alg"), [None])
                for fa in firsts:  # one case per value of the first algorithm slot (parallelism)
                    out.append((f"deep:{fname}#{i}" + (f":{fa}" if fa else ""), case_deep, dict(fname=fname, pattern_index=i, first_alg=fa)))
    for fname in ("inv", "solve", "pinv", "svd", "eig", "slogdet", "unary", "diag"):
        for n in (6, 1001):
            for an in ("none", "PSD", "SelfAdjoint"):
                out.append((f"auto-redispatch:{fname}:n{n}:{an}", case_auto_redispatch, dict(fname=fname, n=n, annotation=an)))
    for fname, pats in _patterns().items():
        for i, p in enumerate(pats):
            out.append((f"{fname}#{i}", case_function, dict(fname=fname, pattern_index=i)))
    return out


BOUNDS = dict(
    lattice="22 public dispatch functions x argument patterns (omitted / explicit optional arguments) x 21 operator kinds x 5 annotation options x "
    "{real, complex} x {all factors square, not} x the algorithm classes each docstring admits; pairs of operators for dot / add / kron / kronsum",
    exploration="complete: every branch of the resolver is checked for satisfiability in both directions (finite sorts, always decided)")

"""C06 — inv / solve return the solution of the linear system on every dispatch path.

inv(A, alg) @ b, solve(A, b, alg), b @ inv(A), inv(A).T @ b and inv(A).to_dense() are executed on structural-rule trees, dense
general inputs (pivoted-LU stand-in; pivot orders are solver-explored paths), dense Hermitian positive definite inputs (Cholesky),
and through the lazy iterative operators (CG / GMRES on Krylov-parametrised inputs, see C12 / C13).  Obligation for all payload
values: M x == b entrywise (M the reference matrix), M inv(A).to_dense() == I."""
import numpy as np

import cola
from cola.linalg.decompositions.decompositions import LU, Cholesky

from . import krylov as K
from .c01 import C16, F4, F8
from .c11 import build_psd, pname
from .common import Ref, build, expected, ref_eye, ref_H, ref_matmul, ref_T, rfrom, tree_name, tree_shape

PROPERTY = "C06"
OPTS = {
    "quick": dict(max_paths=24, case_budget_s=200, flip_timeout_ms=8000, abs_gen=True, partial_ok=False),
    "thorough": dict(max_paths=120, case_budget_s=900, flip_timeout_ms=20000, abs_gen=True),
}
ASSUMPTIONS = ["invertible inputs: every divisor met during execution (diagonal entries, pivots, determinants) is assumed non-zero",
               "iterative paths are checked on the Krylov parametrisations of C12 / C13 for runs to the full Krylov dimension (exact solution); the "
               "tolerance contract of truncated runs is C12's / C13's subject",
               "the automatic switch at 10^6 entries: the small side is executed; on the large side the *selection* (PSD -> CG, otherwise GMRES, with the "
               "Auto() options passed on) is checked on a 1001 x 1001 operator without running the solver symbolically"]


def _observe(T, tag, A, R, Ainv, left=True, transpose=True, dense=True):
    n = A.shape[0]
    M = R
    dtc = 'complex128' if R.dt.kind == 'c' else 'float64'
    b = T.arr("b" + tag[:3] + str(abs(hash(tag)) % 997), (n, ), dtc)
    B = T.arr("B" + tag[:3] + str(abs(hash(tag)) % 997), (n, 2), dtc)
    x = Ainv @ b
    T.eq(f"{tag}:A (inv(A) @ b) == b", expected(T, ref_matmul(T, M, Ref(rfrom(T, x.reshape(n, 1)), dtc))).reshape(-1), b, dtype=False)
    X = Ainv @ B
    T.eq(f"{tag}:A (inv(A) @ B) == B", expected(T, ref_matmul(T, M, Ref(rfrom(T, X), dtc))), B, dtype=False)
    T.check(f"{tag}:shape", tuple(Ainv.shape) == (n, n) and tuple(x.shape) == (n, ) and tuple(X.shape) == (n, 2))
    if dtc == 'float64':
        # a real operator applied to a complex right-hand side
        bc = T.arr("c" + tag[:3] + str(abs(hash(tag)) % 997), (n, ), 'complex128')
        xc = Ainv @ bc
        T.eq(f"{tag}:A (inv(A) @ b_complex) == b_complex", expected(T, ref_matmul(T, M, Ref(rfrom(T, xc.reshape(n, 1)), 'complex128'))).reshape(-1), bc,
             dtype=False)
    if left:
        y = b @ Ainv
        T.eq(f"{tag}:(b @ inv(A)) A == b", expected(T, ref_matmul(T, Ref(rfrom(T, y.reshape(1, n)), dtc), M)).reshape(-1), b, dtype=False)
    if transpose:
        z = Ainv.T @ b
        T.eq(f"{tag}:A^T (inv(A).T @ b) == b", expected(T, ref_matmul(T, ref_T(T, M), Ref(rfrom(T, z.reshape(n, 1)), dtc))).reshape(-1), b, dtype=False)
    if dense:
        D = Ainv.to_dense()
        T.eq(f"{tag}:A inv(A).to_dense() == I", expected(T, ref_matmul(T, M, Ref(rfrom(T, D), dtc))), expected(T, ref_eye(T, n, dtc)), dtype=False)


def _guard(T, tag, thunk):
    from symx.core import Inconclusive, PathAbort
    from symx.harness import CaseTimeout
    try:
        return thunk()
    except (Inconclusive, PathAbort, CaseTimeout):
        raise
    except Exception as e:
        T.check(f"{tag}:!exception", False, f"{type(e).__name__}: {e}"[:300])
        return None


def case_tree(T, tree, algs):
    A, R = build(T, tree)
    for an in algs:
        alg = {"default": None, "Auto": cola.linalg.Auto(), "LU": LU()}[an]
        tag = f"inv({an})"

        def run():
            Ainv = cola.linalg.inv(A) if alg is None else cola.linalg.inv(A, alg)
            _observe(T, tag, A, R, Ainv)
            n = A.shape[0]
            b = T.arr("s" + an, (n, ), 'float64')
            xs = cola.linalg.solve(A, b) if alg is None else cola.linalg.solve(A, b, alg)
            T.eq(f"solve({an}):A x == b", expected(T, ref_matmul(T, R, Ref(rfrom(T, xs.reshape(n, 1)), 'float64'))).reshape(-1), b, dtype=False)

        _guard(T, tag, run)


def case_psd(T, tree, algs):
    A, R = build_psd(T, tree)
    for an in algs:
        alg = {"default": None, "Cholesky": Cholesky(), "LU": LU()}[an]
        tag = f"inv({an})"
        _guard(T, tag, lambda: _observe(T, tag, A, R, cola.linalg.inv(A) if alg is None else cola.linalg.inv(A, alg)))


def case_unitary(T, alg):
    """a declared-Unitary operator: symbolic plane rotation (2x2) and its Kronecker / BlockDiag compositions"""
    Q = K.cayley2_symbolic(T, "t", flip=False)
    A = cola.Unitary(cola.ops.Dense(Q))
    R = Ref(K.raw(T, Q), 'float64')
    _guard(T, "inv(unitary)", lambda: _observe(T, "inv(unitary)", A, R, cola.linalg.inv(A) if alg == "default" else cola.linalg.inv(A, LU())))
    P = cola.ops.Permutation(np.array([2, 0, 1]))
    Ak = cola.ops.Kronecker(A, P)
    from .common import ref_kron
    Rp = Ref(K.raw(T, K.mat(T, [[K.S(T, 1 if j == [2, 0, 1][i] else 0) for j in range(3)] for i in range(3)], 'float64')), 'float32')
    _guard(T, "inv(kron(unitary,perm))", lambda: _observe(T, "inv(kron(unitary,perm))", Ak, ref_kron(T, R, Rp), cola.linalg.inv(Ak)))


def case_cg(T, n, variant, alg_via, x0case=False):
    """inv(A, CG(max_iters >= n)) / Auto on a PSD operator: exact solution after n steps (C12 parametrisation)"""
    from .c12 import cg_matrix
    dt = 'float64'
    Q = K.basis(T, n, variant, False, dt)
    alpha = [T.var(f"al{k}", positive=True) for k in range(n)]
    rho = [K.S(T, 1)] + [T.var(f"rho{k}", positive=True) for k in range(1, n)]
    s = T.var("s", positive=True)
    for x in alpha + rho[1:] + [s]:
        T.assume(x >= 1e-3)
        T.assume(x <= 1e3)
    Tm = K.mat(T, cg_matrix(T, n, alpha, rho), dt)
    A = Q @ Tm @ Q.T
    b = s * Q[:, 0]
    Aop = cola.PSD(cola.ops.Dense(A))
    if x0case:
        return _cg_x0(T, n, A, Aop, b, dt)
    Ainv = cola.linalg.inv(Aop, cola.linalg.CG(tol=1e-12, max_iters=n + 1))
    x = Ainv @ b
    T.eq("inv(CG) @ b solves A x = b", A @ x, b, dtype=False)
    T.check("info", isinstance(Ainv.info, dict) and "iterations" in Ainv.info)
    xs = cola.linalg.solve(Aop, b, cola.linalg.CG(tol=1e-12, max_iters=n + 1))
    T.eq("solve(CG) solves A x = b", A @ xs, b, dtype=False)
    ok, e = T.raises("CG refuses an operator not declared PSD", (AssertionError, ), lambda: cola.linalg.inv(cola.ops.Dense(A), cola.linalg.CG()))


def _cg_x0(T, n, A, Aop, b, dt):
    # a (vector) initial guess configured on the algorithm object
    from fractions import Fraction as Fr
    x0 = K.mat(T, [[K.cst(T, v) for v in (Fr(1, 2), Fr(-2, 3), Fr(3, 4))[:n]]], dt)[0]
    b2 = A @ x0 + b
    x2 = cola.linalg.inv(Aop, cola.linalg.CG(tol=1e-12, max_iters=n + 1, x0=x0)) @ b2
    T.check("inv(CG(x0)) @ b: shape", tuple(x2.shape) == (n, ), f"{x2.shape}")
    if tuple(x2.shape) == (n, ):
        T.eq("inv(CG(x0)) @ b solves A x = b", A @ x2, b2, dtype=False)


def case_gmres(T, n, variant):
    from .c13 import _H
    dt = 'float64'
    Q = K.basis(T, n, variant, False, dt)
    Hm = K.mat(T, _H(T, n, variant, False, False), dt)
    s = T.var("s", positive=True)
    T.assume(s >= 1e-3)
    for j in range(n - 1):
        T.assume(Hm[j + 1, j].real >= 1e-3)
        T.assume(Hm[j + 1, j].real <= 1e3)
    A = Q @ Hm @ Q.T
    b = s * Q[:, 0]
    Ainv = cola.linalg.inv(cola.ops.Dense(A), cola.linalg.GMRES(tol=1e-9, max_iters=n))
    x = Ainv @ b
    T.eq("inv(GMRES) @ b solves A x = b", A @ x, b, dtype=False)
    # a non-zero initial guess handed over through the algorithm object: b' = A x0 + b has the same Krylov data for the residual
    from fractions import Fraction as Fr
    x0 = K.mat(T, [[K.cst(T, v) for v in (Fr(1, 2), Fr(-2, 3), Fr(3, 4))[:n]]], dt)[0]
    b2 = A @ x0 + b
    x2 = cola.linalg.inv(cola.ops.Dense(A), cola.linalg.GMRES(tol=1e-9, max_iters=n, x0=x0)) @ b2
    T.check("inv(GMRES(x0)) @ b: shape", tuple(x2.shape) == (n, ), f"{x2.shape}")
    if tuple(x2.shape) == (n, ):
        T.eq("inv(GMRES(x0)) @ b solves A x = b", A @ x2, b2, dtype=False)
    x3 = cola.linalg.solve(cola.ops.Dense(A), b2, cola.linalg.GMRES(tol=1e-9, max_iters=n, x0=x0))
    if tuple(x3.shape) == (n, ):
        T.eq("solve(GMRES(x0)) solves A x = b", A @ x3, b2, dtype=False)


class _Selected(Exception):
    def __init__(s, alg):
        s.alg = alg


def case_auto_large(T, psd):
    """both sides of the 10^6-entry switch: which algorithm Auto selects (the iterative solver itself is not run here)"""
    import importlib
    invmod = importlib.import_module("cola.linalg.inverse.inv")
    n = 1001
    d = T.arr("d", (2, ), 'float64', positive=True)
    big = cola.ops.Kronecker(cola.ops.Diagonal(d), cola.ops.Identity((n // 2 + 1, n // 2 + 1), np.dtype('float64')))
    A = cola.no_dispatch(big)
    if psd:
        A = cola.PSD(A)
    T.check("large:entries>1e6", np.prod(A.shape) > 1e6)
    R = cola.linalg.inv(A, cola.linalg.Auto(tol=1e-4, max_iters=7))
    kind = type(R).__name__.split("[")[0]
    T.check("large:lazy-iterative-operator", kind == "IterativeOperatorWInfo", kind)
    if kind == "IterativeOperatorWInfo":
        want = "CG" if psd else "GMRES"
        T.check("large:algorithm", type(R.alg).__name__ == want, f"{type(R.alg).__name__} selected, expected {want}")
        T.check("large:options-forwarded", getattr(R.alg, "tol", None) == 1e-4 and getattr(R.alg, "max_iters", None) == 7, f"{R.alg}")
    small = build_psd(T, ["psd", 2, False])[0] if psd else cola.ops.Dense(K.mat(T, [[T.var("a"), T.var("b")], [T.var("c"), T.var("e")]], 'float64'))
    S = cola.linalg.inv(small, cola.linalg.Auto())
    T.check("small:direct", type(S).__name__.split("[")[0] == "Product", type(S).__name__)


def cases(tier, seed):
    out = []

    def add(tree, algs=("default", ), tag="", opts=None):
        c = (f"{tag}{tree_name(tree)}", case_tree, dict(tree=tree, algs=list(algs)))
        out.append(c + ((opts, ) if opts else ()))

    for dt in (F8, C16):
        for n in (1, 2, 3):
            add(["diag", n, dt], ("default", "LU") if dt == F8 else ("default", ), "s:")
            add(["scalar", n, dt], ("default", ), "s:")
            add(["tri", n, 1, dt], ("default", "LU") if (dt == F8 and n < 3) else ("default", ), "s:")
            add(["tri", n, 0, dt], ("default", ), "s:")
        add(["identity", 2, dt], ("default", "LU"), "s:")
    for p in ([1, 0], [1, 2, 0], [2, 0, 1], [0, 2, 1], [1, 2, 3, 0]):
        add(["perm", p, F8], ("default", "LU") if len(p) < 4 else ("default", ), "s:")
    comp = [["product", ["diag", 2, F8], ["tri", 2, 1, F8]], ["product", ["tri", 2, 0, F8], ["diag", 2, F8], ["perm", [1, 0], F8]],
            ["product", ["scalar", 3, F8], ["tri", 3, 0, F8]], ["product", ["dense", 2, 2, F8], ["diag", 2, F8]],
            ["product", ["dense", 2, 3, F8], ["dense", 3, 2, F8]], ["product", ["diag", 2, F8], ["dense", 2, 3, F8], ["dense", 3, 2, F8]],
            ["kron", ["diag", 2, F8], ["tri", 3, 1, F8]], ["kron", ["tri", 2, 0, C16], ["diag", 2, C16]], ["kron", ["scalar", 2, F8], ["perm", [1, 2, 0], F8]],
            ["kron", ["diag", 2, F8], ["diag", 2, F8], ["tri", 2, 1, F8]], ["kron", ["dense", 2, 2, F8], ["diag", 2, F8]],
            ["blockdiag", [["diag", 2, F8], ["tri", 2, 1, F8]], [2, 1]], ["blockdiag", [["scalar", 1, F8], ["perm", [1, 0], F8]], [3, 1]],
            ["blockdiag", [["dense", 2, 2, F8]], [2]],
            ["product", ["kron", ["diag", 2, F8], ["diag", 2, F8]], ["blockdiag", [["tri", 2, 1, F8]], [2]]],
            ["kron", ["blockdiag", [["diag", 1, F8], ["scalar", 1, F8]], [1, 1]], ["tri", 2, 0, F8]],
            ["sum", ["diag", 2, F8], ["diag", 2, F8]], ["transpose", ["tri", 2, 1, F8]], ["tridiag", 3, F8], ["generic", ["diag", 2, F8]],
            ["sliced", ["dense", 3, 3, F8], ["s", 1, None, None], ["s", None, 2, None]], ["householder", 2, F8]]
    for t in comp:
        add(t, ("default", ), "c:", dict(partial_ok=True))
    for n in (1, 2, 3):
        add(["dense", n, n, F8], ("default", "LU") if n < 3 else ("default", ), "d:", dict(max_paths=60, partial_ok=(n == 3)))
    add(["dense", 2, 2, C16], ("default", ), "d:", dict(partial_ok=True))
    add(["dense", 2, 2, F4], ("default", ), "d:")
    for t in [["psd", 1, False], ["psd", 2, False], ["psd", 3, False], ["psd", 2, True], ["pdiag", 2], ["pscalar", 2],
              ["kron", ["psd", 2, False], ["pdiag", 2]], ["blockdiag", [["psd", 2, False], ["pdiag", 1]], [1, 2]]]:
        out.append((f"psd:{pname(t)}", case_psd, dict(tree=t, algs=["default", "Cholesky"] + (["LU"] if t == ["psd", 2, False] else []))))
    out.append(("unitary", case_unitary, dict(alg="default")))
    for n in (2, 3):
        out.append((f"cg:n{n}", case_cg, dict(n=n, variant=0, alg_via="inv"), dict(partial_ok=True)))
        out.append((f"cg-x0:n{n}", case_cg, dict(n=n, variant=0, alg_via="inv", x0case=True), dict(partial_ok=True, max_paths=3, flip_timeout_ms=1500)))
        out.append((f"gmres:n{n}", case_gmres, dict(n=n, variant=0), dict(partial_ok=True)))
    out.append(("auto-large:psd", case_auto_large, dict(psd=True), dict(validate=False)))
    out.append(("auto-large:general", case_auto_large, dict(psd=False), dict(validate=False)))
    return out


BOUNDS = dict(
    trees="Diagonal / ScalarMul / Triangular (both) n = 1..3 real and complex; Identity; 5 permutations; 22 composites (Product of square and non-square "
    "factors, Kronecker with 2-3 factors, BlockDiag with multiplicities, nestings, Sum, Transpose, Tridiagonal, generic, Sliced, Householder); dense "
    "general n <= 3 (LU stand-in, pivot orders as paths), float32 and complex; dense L0 L0^H n <= 3 (Cholesky), PSD Kronecker / BlockDiag; a "
    "symbolic rotation declared Unitary; CG / GMRES lazy inverses for n in {2,3}; the 10^6 switch on a 1002 x 1002 operator",
    observations="inv(A) @ b, inv(A) @ B, solve, b @ inv(A), inv(A).T @ b, inv(A).to_dense(); default / Auto / LU / Cholesky / CG / GMRES", values="all payloads "
    "and right-hand sides symbolic")
BOUNDS["added"] = 'symbolic arrays report the array-API device of NumPy >= 2 and an exception of the float run inside a guarded call counts although the symbolic run completed (this is how inv(c * A) was found)'

"""C03 — operator algebra builds the operator of the corresponding matrix expression.

Every overload / functional combinator is executed on every ordered pair of operand kinds (operators of all
kinds, plain arrays) with symbolic payloads and symbolic scalars of every form; the resulting operator's
dense form, action, shape and dtype are compared with the same expression evaluated by the reference
interpreter (which never simplifies).  Shape-mismatched operands must raise."""
import numpy as np

import cola
from cola import ops

from .c01 import C8, C16, F4, F8
from .common import (Ref, build, expected, ref_add, ref_blockdiag, ref_eye, ref_kron, ref_matmul, ref_scale, rfrom, rzeros, tree_name,
                     tree_shape)

PROPERTY = "C03"
OPTS = {
    "quick": dict(max_paths=8, case_budget_s=100, zdag=True),
    "thorough": dict(max_paths=16, case_budget_s=400, zdag=True),
}
ASSUMPTIONS = ["scalar division c / A is read as c * inv(A) (checked through (c / A) @ A == c * I)"]


_CNT = [0]


def _observe(T, tag, Op, R, rhs=True):
    """Op may be a thunk: exceptions raised while building or observing the operator are a violation of this tag"""
    from symx.core import Inconclusive, PathAbort
    from symx.harness import CaseTimeout
    try:
        if callable(Op) and not isinstance(Op, cola.ops.LinearOperator):
            Op = Op()
        _observe0(T, tag, Op, R, rhs)
    except (Inconclusive, PathAbort, CaseTimeout):
        raise
    except Exception as e:
        T.check(f"{tag}:!exception", False, f"{type(e).__name__}: {e}"[:300])


def _observe0(T, tag, Op, R, rhs=True):
    if not isinstance(Op, cola.ops.LinearOperator):
        T.check(f"{tag}:is-operator", False, f"result is {type(Op).__name__}")
        return
    T.check(f"{tag}:shape", tuple(Op.shape) == tuple(R.shape), f"{Op.shape} vs {R.shape}")
    T.check(f"{tag}:op-dtype", np.dtype(Op.dtype) == R.dt, f"operator dtype {Op.dtype}, expression has {R.dt}")
    T.eq(f"{tag}:to_dense", Op.to_dense(), expected(T, R))
    if rhs:
        n = Op.shape[1]
        _CNT[0] += 1
        X = T.arr(f"X{_CNT[0]}", (n, 2), F8)
        T.eq(f"{tag}@X", Op @ X, expected(T, ref_matmul(T, R, Ref(rfrom(T, X), F8))))


def _scalar(T, name, form, dt):
    """returns (python-level scalar object to pass to cola, reference entry, scalar dtype for promotion or None=weak)"""
    if form == "pyint":
        return 4, 4.0 * _one(T), None
    if form == "pyneg":
        return -0.5, -0.5 * _one(T), None
    if form == "pyzero":
        return 0.0, 0.0 * _one(T), None
    if form == "py":
        c = T.scalar(name, dt, form='py')
        return c, c, None
    if form == "0d":
        c = T.scalar(name, dt, form='0d')
        return c, rfrom(T, c.reshape(1, 1))[0, 0], np.dtype(dt)
    raise ValueError(form)


def _one(T):
    from .common import r_one
    return r_one(T)


def case_binary(T, ta, tb, opnames):
    A, RA = build(T, ta, "A")
    B, RB = build(T, tb, "B")
    for op in opnames:
        if op == "add":
            _observe(T, "A+B", lambda: A + B, ref_add(T, RA, RB))
        elif op == "sub":
            _observe(T, "A-B", lambda: A - B, ref_add(T, RA, ref_scale(T, -1 * _one(T), RB)))
        elif op == "matmul":
            _observe(T, "A@B", lambda: A @ B, ref_matmul(T, RA, RB))
        elif op == "kron":
            _observe(T, "kron", lambda: cola.kron(A, B), ref_kron(T, RA, RB))
        elif op == "kronsum":
            n, m = RA.shape[0], RB.shape[0]
            R = ref_add(T, ref_kron(T, RA, ref_eye(T, m, RB.dt)), ref_kron(T, ref_eye(T, n, RA.dt), RB))
            _observe(T, "kronsum", lambda: cola.kronsum(A, B), R)
        elif op == "block_diag":
            _observe(T, "block_diag", lambda: cola.block_diag(A, B), ref_blockdiag(T, [RA, RB]))
        elif op == "sum3":
            _observe(T, "sum([A,B,A])", lambda: sum([A, B, A]), ref_add(T, ref_add(T, RA, RB), RA))
        elif op == "add_arr":
            # operator + plain array and plain array + operator
            Bd = expected(T, RB)
            _observe(T, "A+arr", lambda: A + Bd, ref_add(T, RA, RB))
            _observe(T, "arr+A", lambda: Bd + A, ref_add(T, RB, RA))
        elif op == "arrays":
            # the functional combinators applied to plain arrays (mixing operators with plain arrays): kron / kronsum of two arrays and of
            # an array with an operator; densify of an array is the array; elementwise product of two scalar operators
            Ad, Bd = expected(T, RA), expected(T, RB)
            _observe(T, "kron(arr,arr)", lambda: cola.kron(Ad, Bd), ref_kron(T, RA, RB))
            _observe(T, "kron(arr,B)", lambda: cola.kron(Ad, B), ref_kron(T, RA, RB))
            _observe(T, "kron(A,arr)", lambda: cola.kron(A, Bd), ref_kron(T, RA, RB))
            if RA.shape[0] == RA.shape[1] and RB.shape[0] == RB.shape[1]:
                n, m = RA.shape[0], RB.shape[0]
                R = ref_add(T, ref_kron(T, RA, ref_eye(T, m, RB.dt)), ref_kron(T, ref_eye(T, n, RA.dt), RB))
                _observe(T, "kronsum(arr,arr)", lambda: cola.kronsum(Ad, Bd), R)
                _observe(T, "kronsum(A,arr)", lambda: cola.kronsum(A, Bd), R)
            T.eq("densify(arr)", cola.densify(Ad), Ad)
        elif op == "matmul_chain":
            pass
        elif op == "nested":
            # flattening of nested sums / products must not change the meaning
            _observe(T, "(A+B)+(B+A)", lambda: (A + B) + (B + A), ref_add(T, ref_add(T, RA, RB), ref_add(T, RB, RA)))
            if A.shape[0] == A.shape[1]:
                _observe(T, "(A@B)@(B@A)", lambda: (A @ B) @ (B @ A), ref_matmul(T, ref_matmul(T, RA, RB), ref_matmul(T, RB, RA)))
                _observe(T, "A@(A+B)", lambda: A @ (A + B), ref_matmul(T, RA, ref_add(T, RA, RB)))
                _observe(T, "kron(kron(A,B),A)", lambda: cola.kron(cola.kron(A, B), A), ref_kron(T, ref_kron(T, RA, RB), RA), rhs=False)
                _observe(T, "kron(A,kron(B,A))", lambda: cola.kron(A, cola.kron(B, A)), ref_kron(T, RA, ref_kron(T, RB, RA)), rhs=False)


def _refT(T, R):
    from .common import ref_T
    return ref_T(T, R)


def case_unary(T, ta, forms):
    A, RA = build(T, ta, "A")
    _observe(T, "-A", lambda: -A, ref_scale(T, -1 * _one(T), RA))
    _observe(T, "lazify", cola.lazify(A), RA, rhs=False)
    T.eq("densify", cola.densify(A), expected(T, RA))
    _observe(T, "lazify(densify)", cola.lazify(cola.densify(A)), RA, rhs=False)
    _observe(T, "no_dispatch", lambda: cola.no_dispatch(A), RA)
    _observe(T, "A+0", lambda: A + 0, RA, rhs=False)
    _observe(T, "0+A", lambda: 0 + A, RA, rhs=False)
    for form, dt in forms:
        tag = f"{form}{np.dtype(dt).char if form in ('py', '0d') else ''}"
        c, ce, cdt = _scalar(T, "c" + tag, form, dt)
        rdt = RA.dt if cdt is None else np.promote_types(RA.dt, cdt)
        if cdt is None and form == "py" and np.dtype(dt).kind == 'c':
            # a python complex is a weak scalar: float32 -> complex64, float64 -> complex128, complex stays
            rdt = np.promote_types(RA.dt, np.complex64)
        _observe(T, f"c*A[{tag}]", lambda: c * A, ref_scale(T, ce, RA, rdt))
        _observe(T, f"A*c[{tag}]", lambda: A * c, ref_scale(T, ce, RA, rdt), rhs=False)
        if form != "pyzero":
            _observe(T, f"A/c[{tag}]", lambda: A / c, ref_scale(T, 1 / ce, RA, rdt), rhs=False)
            if A.shape[0] == A.shape[1] and ta[0] in ("diag", "scalar", "identity"):
                # c / A  ==  c * inv(A):  (c / A) @ A  must be c * I
                n = A.shape[0]
                _observe(T, f"(c/A)@A[{tag}]", lambda: (c / A) @ A, ref_scale(T, ce, ref_eye(T, n, RA.dt), rdt), rhs=False)
        # merging scalars
        _observe(T, f"2*(c*A)[{tag}]", lambda: 2. * (c * A), ref_scale(T, 2 * ce, RA, rdt), rhs=False)
        _observe(T, f"(c*A)*c[{tag}]", lambda: (c * A) * c, ref_scale(T, ce * ce, RA, rdt), rhs=False)


def case_mismatch(T, ta, tb):
    """operands of incompatible shape must be rejected with an error"""
    A, RA = build(T, ta, "A")
    B, RB = build(T, tb, "B")
    errs = (ValueError, AssertionError, TypeError, IndexError)
    if A.shape != B.shape:
        T.raises("A+B raises", errs, lambda: A + B)
        T.raises("A-B raises", errs, lambda: A - B)
        T.raises("Sum raises", errs, lambda: ops.Sum(A, B))
        T.raises("sum([..]) raises", errs, lambda: sum([A, B]))
        T.raises("A+arr raises", errs, lambda: A + expected(T, RB))
    if A.shape[1] != B.shape[0]:
        T.raises("A@B raises", errs, lambda: A @ B)
        T.raises("Product raises", errs, lambda: ops.Product(A, B))
        T.raises("A@arr raises", errs, lambda: A @ expected(T, RB))
        T.raises("Product3 raises", errs, lambda: ops.Product(A, B, B.T))
    if A.shape[1] != B.shape[1]:
        T.raises("Concatenated0 raises", errs, lambda: ops.Concatenated(A, B, axis=0))
    if A.shape[0] != B.shape[0]:
        T.raises("Concatenated1 raises", errs, lambda: ops.Concatenated(A, B, axis=1))


SQ = [["dense", 2, 2, F8], ["dense", 2, 2, C8], ["diag", 2, F8], ["scalar", 2, F8], ["identity", 2, F8], ["tri", 2, 1, F8], ["tridiag", 2, F8],
      ["perm", [1, 0], F8], ["householder", 2, F8], ["product", ["dense", 2, 3, F8], ["dense", 3, 2, F8]], ["sum", ["dense", 2, 2, F8], ["diag", 2, F8]],
      ["kron", ["dense", 2, 1, F8], ["dense", 1, 2, F8]], ["kronsum", ["dense", 1, 1, F8], ["dense", 2, 2, F8]], ["blockdiag", [["dense", 1, 1, F8]], [2]],
      ["transpose", ["dense", 2, 2, F8]], ["sliced", ["dense", 3, 3, F8], ["s", 1, None, None], ["s", None, 2, None]], ["generic", ["dense", 2, 2, F8]],
      ["dense", 2, 2, F4], ["diag", 2, C16], ["scalar", 2, C16]]
RECT = [["dense", 2, 3, F8], ["dense", 3, 2, C8], ["dense", 1, 3, F8], ["kron", ["dense", 2, 1, F8], ["dense", 1, 3, F8]],
        ["sliced", ["dense", 3, 3, F8], ["s", None, 2, None], ["s", None, None, None]], ["dense", 3, 1, F8]]
FORMS = [["pyint", F8], ["pyneg", F8], ["pyzero", F8], ["py", F8], ["py", C16], ["0d", F8], ["0d", F4], ["0d", C8], ["0d", C16]]


def cases(tier, seed):
    out = []
    for a, b in ((["dense", 2, 2, F8], ["dense", 2, 2, F8]), (["dense", 2, 3, F8], ["dense", 1, 2, C8]), (["diag", 2, F8], ["dense", 3, 3, F8]),
                 (["dense", 2, 2, C8], ["tridiag", 2, F8]), (["scalar", 2, F8], ["dense", 2, 2, F8])):
        out.append((f"arr:{tree_name(a)}|{tree_name(b)}", case_binary, dict(ta=a, tb=b, opnames=["arrays"])))
    for a in SQ:
        for b in SQ:
            out.append((f"bin:{tree_name(a)}|{tree_name(b)}", case_binary,
                        dict(ta=a, tb=b, opnames=["add", "sub", "matmul", "kron", "kronsum", "block_diag", "sum3", "add_arr"])))
    nest_pool = SQ if tier == "thorough" else SQ[seed % 3::3]
    for a in nest_pool:
        for b in nest_pool:
            out.append((f"nest:{tree_name(a)}|{tree_name(b)}", case_binary, dict(ta=a, tb=b, opnames=["nested"])))
    for a in RECT + SQ[:3]:
        for b in RECT + SQ[:3]:
            ops_ = ["kron", "block_diag"]
            if tree_shape(a)[1] == tree_shape(b)[0]:
                ops_.append("matmul")
            if tree_shape(a) == tree_shape(b):
                ops_ += ["add", "sub", "sum3", "add_arr"]
            out.append((f"rect:{tree_name(a)}|{tree_name(b)}", case_binary, dict(ta=a, tb=b, opnames=ops_)))
    for a in SQ + RECT + [["dense", 3, 3, C16], ["diag", 3, F4], ["scalar", 3, C8], ["identity", 3, C16]]:
        out.append((f"un:{tree_name(a)}", case_unary, dict(ta=a, forms=FORMS)))
    mm = SQ[:6] + RECT + [["dense", 3, 3, F8], ["diag", 3, F8], ["identity", 3, F8], ["scalar", 3, F8]]
    for a in mm:
        for b in mm:
            sa, sb = tree_shape(a), tree_shape(b)
            if sa != sb or sa[1] != sb[0]:
                out.append((f"mis:{tree_name(a)}|{tree_name(b)}", case_mismatch, dict(ta=a, tb=b)))
    seen = set()
    uniq = []
    for c in out:
        if c[0] not in seen:
            seen.add(c[0])
            uniq.append(c)
    return uniq


BOUNDS = dict(
    operands="20 square operand kinds (2x2: every leaf kind, Product/Sum/Kronecker/KronSum/BlockDiag/Transpose/Sliced/generic composites, mixed "
    "dtypes) as ordered pairs; 6 rectangular kinds; plain arrays on either side of +",
    operations="+, -, unary -, @, kron, kronsum, block_diag, sum([...]), A+0, lazify/densify/no_dispatch, nested re-association (flattening), "
    "c*A, A*c, A/c, c/A, merged scalars", scalars="python int / negative float / zero / symbolic python float / symbolic python complex / 0-d arrays "
    "of float32, float64, complex64, complex128 (symbolic values)", mismatch="every ordered pair of 16 operands with incompatible shapes")

"""C01 — an operator acts on arrays exactly as the matrix it represents.

Every tree of the bound is built through the public constructors with fully symbolic leaf payloads and
run through the real `__matmul__` / `_matmat` / `to_dense` / `densify`; the result is compared entry by
entry (and in shape and logical dtype) with the reference matrix built from the index formulas."""
import numpy as np

import cola

from .common import Ref, build, expected, ref_matmul, rfrom, tree_name, tree_shape

PROPERTY = "C01"

OPTS = {
    "quick": dict(max_paths=8, case_budget_s=100, zdag=True),
    "thorough": dict(max_paths=16, case_budget_s=400, zdag=True),
}

ASSUMPTIONS = [
    "Sparse (scipy C constructor; np_fns lacks to_np/sparse_csr), Jacobian/Hessian/ConvolveND (need autodiff) are outside",
    "FFT only for n in {1,2,4} (exact DFT matrix); Kernel with a polynomial kernel on square point sets",
    "generic _rmatmat is not exercised here (C02)",
]


def case_tree(T, tree, rhs):
    A, R = build(T, tree)
    T.check("shape", tuple(A.shape) == tuple(R.shape), f"{A.shape} vs {R.shape}")
    T.check("op-dtype", np.dtype(A.dtype) == R.dt, f"operator dtype {A.dtype}, dense computation has {R.dt}")
    T.eq("to_dense", A.to_dense(), expected(T, R))
    T.eq("densify", cola.densify(A), expected(T, R))
    n = A.shape[1]
    for kind, xdt in rhs:
        shp = {"vec": (n, ), "col1": (n, 1), "col2": (n, 2)}[kind]
        X = T.arr(f"X{kind}{np.dtype(xdt).char}", shp, xdt)
        Xr = Ref(rfrom(T, X.reshape(n, -1)), xdt)
        want = ref_matmul(T, R, Xr)
        Y = A @ X
        W_ = expected(T, want)
        if kind == "vec":
            W_ = W_.reshape(-1)
        T.eq(f"matmul[{kind},{np.dtype(xdt)}]", Y, W_)


# ------------------------------------------------------------------------------------------------
F8, F4, C8, C16 = "float64", "float32", "complex64", "complex128"


def leaves(dt=F8, sizes=(1, 2, 3)):
    out = []
    for m in sizes:
        for n in sizes:
            out.append(["dense", m, n, dt])
    for n in sizes:
        out += [["diag", n, dt], ["scalar", n, dt], ["identity", n, dt], ["tri", n, 1, dt], ["tri", n, 0, dt], ["tridiag", n, dt],
                ["householder", n, dt]]
    out += [["perm", [0], dt], ["perm", [1, 0], dt], ["perm", [1, 2, 0], dt], ["perm", [2, 1, 0], dt], ["perm", [0, 2, 1], dt]]
    return out


def square(ts):
    return [t for t in ts if tree_shape(t)[0] == tree_shape(t)[1]]


def depth1(pool, rich=False):
    """composites over a pool of subtrees"""
    out = []
    sq = square(pool)
    by_shape = {}
    for t in pool:
        by_shape.setdefault(tree_shape(t), []).append(t)
    # unary
    for t in pool:
        out += [["transpose", t], ["adjoint", t], ["generic", t], ["nodispatch", t]]
    # slices: a few index forms per subtree
    for t in pool:
        m, n = tree_shape(t)
        forms = [(["s", None, None, None], ["s", 0, n, 1]), (["s", 0, max(m - 1, 1), None], ["s", None, None, -1]),
                 (["s", None, None, 2], ["s", 1, None, None]), (["s", -2, None, None], ["s", None, -1, None])]
        if rich:
            forms += [(["s", m, None, None], ["s", None, None, None])]
        for s0, s1 in forms:
            out.append(["sliced", t, s0, s1])
    # binary, shape-compatible
    shapes = sorted(by_shape)
    for (m, k) in shapes:
        for (k2, n) in shapes:
            if k != k2:
                continue
            for a in by_shape[(m, k)][:3 if not rich else 6]:
                for b in by_shape[(k2, n)][:3 if not rich else 6]:
                    out.append(["product", a, b])
    for shp in shapes:
        ts = by_shape[shp]
        for i in range(min(len(ts), 4 if not rich else 8)):
            for j in range(min(len(ts), 4 if not rich else 8)):
                out.append(["sum", ts[i], ts[j]])
        if len(ts) >= 2:
            out.append(["concat", [ts[0], ts[1]], 0])
            out.append(["concat", [ts[0], ts[-1]], 1])
    for a in pool[:: (3 if not rich else 1)]:
        for b in pool[1:: (4 if not rich else 2)]:
            out.append(["kron", a, b])
            if tree_shape(a)[0] == tree_shape(b)[0]:
                pass
    for a in sq[::3 if not rich else 1]:
        for b in sq[1::4 if not rich else 2]:
            out.append(["kronsum", a, b])
    for a in pool[::4 if not rich else 2]:
        for b in pool[2::5 if not rich else 3]:
            out.append(["blockdiag", [a, b], [1, 1]])
            out.append(["blockdiag", [a, b], [2, 3]])
    return out


RHS_BASIC = [["vec", F8], ["col2", F8]]
RHS_MIX = [["vec", F4], ["col1", F8], ["col2", C8], ["col2", C16]]


def cases(tier, seed):
    out = []

    def add(tree, rhs, tag=""):
        out.append((f"{tag}{tree_name(tree)}", case_tree, dict(tree=tree, rhs=rhs)))

    L = leaves(F8)
    # depth 0: every leaf kind, all dtypes, all rhs kinds/dtypes
    for dt in (F8, F4, C8, C16):
        for t in leaves(dt, sizes=(1, 2, 3)):
            add(t, RHS_MIX + RHS_BASIC, "d0:")
    add(["dense", 1, 9, F8], RHS_BASIC, "d0:")  # wide: 8*rows < cols densification branch
    add(["dense", 1, 9, C8], RHS_MIX, "d0:")
    for n in (1, 2, 4):
        for dt in (C8, C16):
            add(["fft", n, dt], RHS_BASIC + [["col2", C16]], "d0:")
    for (n, d, b1, b2) in [(3, 2, 1, 1), (3, 2, 2, 2), (3, 1, 3, 1), (4, 2, 3, 2), (2, 2, 1, 2)]:
        add(["kernel", n, d, b1, b2, F8], RHS_BASIC, "d0:")
    add(["selfadj", 2, C16], RHS_MIX, "d0:")
    add(["psd", 2, F8], RHS_BASIC, "d0:")
    # depth 1 over a reduced leaf pool
    pool = [["dense", 2, 3, F8], ["dense", 3, 2, F8], ["dense", 2, 2, F8], ["dense", 3, 3, C8], ["dense", 1, 2, F8], ["diag", 2, F8],
            ["diag", 3, F8], ["scalar", 2, F8], ["identity", 3, F8], ["tri", 2, 1, F8], ["tridiag", 3, F8], ["perm", [1, 2, 0], F8],
            ["householder", 2, F8], ["dense", 2, 2, F4], ["diag", 2, C16]]
    d1 = depth1(pool, rich=(tier == "thorough"))
    for t in d1:
        add(t, RHS_BASIC, "d1:")
    # multi-factor Kronecker / KronSum / BlockDiag, wide composite
    multi = [
        ["kron", ["dense", 2, 3, F8], ["dense", 3, 2, F8], ["dense", 2, 2, F8]],
        ["kron", ["dense", 2, 2, F8], ["dense", 3, 3, F8], ["dense", 2, 2, F8]],
        ["kron", ["dense", 3, 2, F8], ["diag", 2, F8], ["tridiag", 3, F8]],
        ["kronsum", ["dense", 2, 2, F8], ["dense", 3, 3, F8], ["dense", 2, 2, F8]],
        ["kronsum", ["tridiag", 3, F8], ["dense", 2, 2, F8], ["diag", 2, F8]],
        ["blockdiag", [["dense", 2, 3, F8], ["dense", 3, 2, F8]], [2, 2]],
        ["blockdiag", [["kron", ["dense", 2, 2, F8], ["dense", 2, 3, F8]], ["dense", 3, 2, F8]], [2, 3]],
        ["kron", ["dense", 2, 1, F8], ["dense", 1, 3, F8], ["dense", 2, 2, F8]],
        ["kron", ["dense", 2, 2, F8], ["diag", 2, F8], ["dense", 1, 2, C8]],
        ["kron", ["dense", 2, 3, F4], ["dense", 3, 1, F8]],
        ["kronsum", ["dense", 2, 2, F8], ["dense", 3, 3, F8]],
        ["kronsum", ["dense", 2, 2, F8], ["diag", 2, F8], ["dense", 2, 2, C8]],
        ["blockdiag", [["dense", 2, 3, F8], ["dense", 1, 2, F8], ["diag", 2, F8]], [2, 1, 3]],
        ["blockdiag", [["dense", 1, 2, F8]], [3]],
        ["concat", [["dense", 2, 3, F8], ["dense", 1, 3, F8], ["dense", 2, 3, F8]], 0],
        ["concat", [["dense", 2, 1, F8], ["dense", 2, 3, F8]], 1],
        ["kron", ["dense", 1, 3, F8], ["dense", 1, 3, F8]],  # 1 x 9 composite: wide densification branch
        ["sliced", ["kron", ["dense", 2, 2, F8], ["dense", 2, 2, F8]], ["i", [3, 0, 0]], ["i", [1, 2]]],
        ["sliced", ["dense", 3, 4 - 1, F8], ["i", [2, -1]], ["s", None, None, -2]],
    ]
    for t in multi:
        add(t, RHS_BASIC + [["col2", C8]], "m:")
    # rule-less wide operators (8 * rows < cols): LinearOperator.to_dense multiplies the identity from the LEFT, i.e. densification goes
    # through __rmatmul__ / _rmatmat of the kind (Dense / Kronecker / BlockDiag / Diagonal have their own to_dense and never get here)
    wide = [
        ["product", ["dense", 1, 2, F8], ["dense", 2, 9, F8]],
        ["product", ["dense", 1, 3, C8], ["diag", 3, F8], ["dense", 3, 9, F8]],
        ["sum", ["dense", 1, 9, F8], ["dense", 1, 9, C8]],
        ["transpose", ["dense", 9, 1, F8]],
        ["adjoint", ["dense", 9, 1, C16]],
        ["sliced", ["dense", 2, 9, F8], ["s", 1, None, None], ["s", None, None, None]],
        ["sliced", ["kron", ["dense", 1, 3, F8], ["dense", 2, 3, F8]], ["i", [1]], ["s", None, None, None]],
        ["concat", [["dense", 1, 4, F8], ["dense", 1, 5, F8]], 1],
        ["generic", ["dense", 1, 9, F8]],
        ["nodispatch", ["dense", 1, 9, F4]],
        ["product", ["dense", 2, 2, F8], ["dense", 2, 17, F8]],
        ["sum", ["kron", ["dense", 1, 3, F8], ["dense", 1, 3, F8]], ["dense", 1, 9, F8]],
    ]
    for t in wide:
        add(t, RHS_BASIC, "w:")
    # sums of >= 3 terms where one term hands its operand back unchanged (Identity): aliasing accumulations show from the third term on
    for t in [["sum", ["identity", 2, F8], ["dense", 2, 2, F8], ["dense", 2, 2, F8]],
              ["sum", ["identity", 3, F8], ["diag", 3, F8], ["tridiag", 3, F8], ["dense", 3, 3, F8]],
              ["sum", ["dense", 2, 2, F8], ["identity", 2, F8], ["dense", 2, 2, F8]],
              ["sum", ["identity", 2, C8], ["dense", 2, 2, C8], ["diag", 2, C8]],
              ["product", ["sum", ["identity", 2, F8], ["dense", 2, 2, F8], ["diag", 2, F8]], ["identity", 2, F8]]]:
        add(t, RHS_BASIC + [["col2", C16]], "is:")
    # depth 2: composites of depth-1 composites (seed-rotated sample in quick, all in thorough)
    pool2 = [["kron", ["dense", 2, 1, F8], ["dense", 1, 2, F8]], ["product", ["dense", 2, 3, F8], ["dense", 3, 2, F8]],
             ["sum", ["dense", 2, 2, F8], ["diag", 2, F8]], ["blockdiag", [["dense", 1, 1, F8]], [2]],
             ["transpose", ["dense", 2, 2, C8]], ["adjoint", ["dense", 2, 2, C8]], ["sliced", ["dense", 3, 3, F8], ["s", 1, None, None], ["s", None, 2, None]],
             ["kronsum", ["dense", 1, 1, F8], ["dense", 2, 2, F8]], ["generic", ["tridiag", 2, F8]], ["dense", 2, 2, F8], ["dense", 2, 3, F8]]
    d2 = depth1(pool2, rich=(tier == "thorough"))
    if tier == "quick":
        d2 = d2[seed % 2::2]
    for t in d2:
        add(t, RHS_BASIC, "d2:")
    if tier == "thorough":
        for t in [["kron", ["dense", 2, 2, F8], ["dense", 2, 3, F8], ["dense", 3, 2, F8], ["dense", 2, 2, F8]],
                  ["kronsum", ["dense", 2, 2, F8], ["dense", 2, 2, F8], ["dense", 3, 3, F8], ["dense", 2, 2, F8]],
                  ["kron", ["dense", 2, 3, C8], ["dense", 3, 2, F4], ["dense", 2, 2, C16]]]:
            add(t, RHS_BASIC, "m4:")
        # depth 3 for a reduced alphabet
        pool3 = [["product", ["kron", ["dense", 2, 1, F8], ["dense", 1, 2, F8]], ["sum", ["dense", 2, 2, F8], ["diag", 2, F8]]],
                 ["blockdiag", [["transpose", ["dense", 1, 2, C8]], ["kronsum", ["dense", 1, 1, F8], ["dense", 2, 2, F8]]], [2, 1]],
                 ["sliced", ["kron", ["dense", 2, 2, F8], ["sum", ["dense", 2, 2, F8], ["identity", 2, F8]]], ["s", None, None, 2], ["s", 1, None, None]],
                 ["dense", 2, 2, F8]]
        for t in depth1(pool3, rich=True):
            add(t, RHS_BASIC, "d3:")
    # seeded random trees of depth <= 3 from the whole grammar (8 fixed samples, selected by VERIF_SEED mod 8)
    from .common import random_trees
    for t in random_trees(1000 + seed % 8, 60 if tier == "quick" else 3000):
        add(t, RHS_BASIC if tier == "quick" else RHS_BASIC + [["col2", C8]], "r:")
    # de-duplicate ids
    seen = set()
    uniq = []
    for c in out:
        if c[0] not in seen:
            seen.add(c[0])
            uniq.append(c)
    return uniq


BOUNDS = dict(
    trees="every leaf kind x {f32,f64,c64,c128} x sizes 1..3 (+1x9 wide); all depth-1 composites over a 15-leaf pool; "
    "multi-factor Kronecker/KronSum/BlockDiag/Concatenated; depth-2 composites over an 11-tree pool (half per seed in quick, "
    "all in thorough); depth 3 over a reduced alphabet in thorough; 60 (quick) / 3000 (thorough) seeded random trees of depth <= 3 over the whole "
    "grammar with dimensions <= 6 (one of 8 fixed samples, chosen by VERIF_SEED mod 8)",
    rhs="1-D, n x 1, n x 2; dtypes float32/float64/complex64/complex128",
    values="all payload entries and right-hand sides symbolic (unbounded reals / complex)")
BOUNDS["added"] = 'rule-less wide operators (8 * rows < cols: the generic densification multiplies the identity from the left) and sums of >= 3 terms whose first / middle term returns its operand (aliasing accumulations)'

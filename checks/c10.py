"""C10 — eig returns the requested eigenpairs of the represented matrix.

eig(A, k, which, alg) on inputs given by their eigen-decomposition with a symbolic spectrum: Eigh on V diag(w) V^T with the LAPACK
contract w ascending (w_{i+1} = w_i + gap_i, gap_i > 0, signs free: definite and indefinite), Eig on P diag(w) P^-1 (no order contract: every
permutation of the registered spectrum is tried), the Identity / Diagonal / Triangular (lower and upper) rules, Lanczos / Arnoldi with
at least n iterations on Krylov-parametrised inputs, power iteration on lambda u u^T, eigmax / eigmin.  Obligations for all spectra:
A v == lambda v for every returned pair, unit / orthonormal vectors, and the *selection*: for every returned lambda and every eigenvalue mu
not returned, |lambda| >= |mu| (LM) resp. <= (SM) — pure inequality queries decided by z3."""
import itertools

import numpy as np

import cola
from cola import ops

from . import krylov as K

PROPERTY = "C10"
OPTS = {
    "quick": dict(max_paths=24, case_budget_s=200, flip_timeout_ms=8000, true_timeout_ms=8000, partial_ok=True),
    "thorough": dict(max_paths=96, case_budget_s=900, flip_timeout_ms=20000, true_timeout_ms=30000, partial_ok=True),
}
ASSUMPTIONS = ["simple, well-separated spectra given by symbolic eigenvalues; eigenvectors by a symbolic plane rotation (n = 2) or a rational basis (n = 3)",
               "LAPACK contract: eigh returns ascending eigenvalues; eig returns them in any order (all orders enumerated)",
               "power iteration is exact-arithmetic checkable only where it terminates finitely: rank-one PSD inputs lambda u u^T",
               "LOBPCG (scipy) and IRAM (ARPACK) are outside"]


def _eigs():
    import importlib
    return importlib.import_module("cola.linalg.eig.eigs")


def _it(T, x):
    if T.sym:
        from symx.array import SymArray
        from symx.core import C
        return C(x.raw.item()) if isinstance(x, SymArray) else C(x)
    return complex(np.asarray(x).item())


def _abs2(T, x):
    x = _it(T, x)
    return (x * x.conjugate()).real


def check_pairs(T, tag, A, vals, vecs, spectrum, k, which, orthonormal):
    """spectrum: list of all n eigenvalues (mode scalars)"""
    n = A.shape[0]
    Vd = vecs.to_dense() if isinstance(vecs, cola.ops.LinearOperator) else vecs
    T.check(f"{tag}:count", tuple(vals.shape) == (k, ) and tuple(Vd.shape) == (n, k), f"values {vals.shape}, vectors {Vd.shape}, k={k}")
    if tuple(vals.shape) != (k, ) or tuple(Vd.shape) != (n, k):
        return
    T.eq(f"{tag}:A V == V diag(lambda)", A @ Vd, Vd * vals[None, :], dtype=False)
    G = np.conjugate(Vd).T @ Vd
    if orthonormal:
        T.eq(f"{tag}:V^H V == I", G, K.eye_like(T, k, G.dtype), dtype=False)
    else:
        T.true(f"{tag}:vectors non-zero", [_abs2(T, G[i, i]) > 0 for i in range(k)])
    # selection: returned values are a sub-multiset of the spectrum (each returned value equals some eigenvalue: implied by A v = lambda v,
    # v != 0) and dominate / are dominated by the ones not returned.  With a simple spectrum: for every eigenvalue mu, either mu is among the
    # returned values or |mu| <= |lambda| for all returned lambda
    if T.sym:
        from symx.core import SymBool
        conds = []
        for mu in spectrum:
            returned = None
            for j in range(k):
                e = (_it(T, vals[j]) == _it(T, mu))
                returned = e if returned is None else (returned | e)
            for j in range(k):
                lam = _abs2(T, vals[j])
                dom = (lam >= _abs2(T, mu)) if which == "LM" else (lam <= _abs2(T, mu))
                conds.append(returned | dom)
        T.true(f"{tag}:selection[{which}]", conds)
    else:
        sp = np.array([complex(x) for x in spectrum])
        got = np.array([complex(_it(T, vals[j])) for j in range(k)])
        rest = [mu for mu in sp if np.min(np.abs(got - mu)) > 1e-8 * (1 + abs(mu))]
        ok = all((abs(l) >= abs(mu) - 1e-9) if which == "LM" else (abs(l) <= abs(mu) + 1e-9) for l in got for mu in rest)
        T.true(f"{tag}:selection[{which}]", [ok])


def check_extreme(T, tag, val, spectrum, which):
    """a single returned value: it is an eigenvalue and no eigenvalue has larger (LM) / smaller (SM) magnitude"""
    if T.sym:
        member = None
        for mu in spectrum:
            e = (_it(T, val) == _it(T, mu))
            member = e if member is None else (member | e)
        lam = _abs2(T, val)
        T.true(f"{tag}: is an eigenvalue of extreme magnitude", [member] + [(lam >= _abs2(T, mu)) if which == "LM" else (lam <= _abs2(T, mu)) for mu in spectrum])
    else:
        sp = np.array([complex(x) for x in spectrum])
        v = complex(np.asarray(val).reshape(-1)[0])
        ext = np.abs(sp).max() if which == "LM" else np.abs(sp).min()
        T.true(f"{tag}: is an eigenvalue of extreme magnitude", [bool(np.min(np.abs(sp - v)) <= 1e-8 * (1 + abs(v)) and abs(abs(v) - ext) <= 1e-8 * (1 + ext))])


def _guard(T, tag, thunk):
    from symx.core import Inconclusive, PathAbort
    from symx.harness import CaseTimeout
    try:
        return thunk()
    except (Inconclusive, PathAbort, CaseTimeout):
        raise
    except Exception as e:
        T.check(f"{tag}:!exception", False, f"{type(e).__name__}: {e}"[:300])


def case_eigh(T, n, ks, algs, complex_=False):
    from cola.linalg.unary.unary import Eigh
    dt = 'complex128' if complex_ else 'float64'
    V = K.basis(T, n, 0, True, dt) if complex_ else (K.cayley2_symbolic(T, "t") if n == 2 else K.basis(T, n, 0, False, dt))
    w = [T.var("w0")]
    for i in range(1, n):
        g = T.var(f"gap{i}", positive=True)
        T.assume(g >= 1e-2)
        w.append(w[-1] + g)
    for i in range(n):
        for j in range(i):
            T.assume(w[i] + w[j] != 0) if False else None
    z = K.S(T, 0)
    A = V @ K.mat(T, [[w[i] if i == j else z for j in range(n)] for i in range(n)], dt) @ np.conjugate(V).T
    if T.sym:
        from symx import lapack
        lapack.register("eigh", K.raw(T, A), (K.raw(T, K.mat(T, [w], 'float64'))[0], K.raw(T, V)))
    Aop = cola.SelfAdjoint(ops.Dense(A))
    E_ = _eigs()
    for an in algs:
        alg = {"Auto": cola.linalg.Auto(), "Eigh": Eigh()}[an]
        for k in ks:
            for which in ("LM", "SM"):
                if an == "Auto" and k == 1 and which == "LM":
                    continue  # Auto -> power iteration
                tag = f"eig(k={k},{which},{an})"

                def run():
                    vals, vecs = E_.eig(Aop, k, which, alg)
                    check_pairs(T, tag, A, vals, vecs, w, k, which, True)

                _guard(T, tag, run)
        if an == "Eigh":
            _guard(T, "eigmin(Eigh)", lambda: check_extreme(T, "eigmin(Eigh)", E_.eigmin(Aop, alg), w, "SM"))
            _guard(T, "eigmax(Eigh)", lambda: check_extreme(T, "eigmax(Eigh)", E_.eigmax(Aop, alg), w, "LM"))
        else:
            _guard(T, "eigmin(Auto)", lambda: check_extreme(T, "eigmin(Auto)", E_.eigmin(Aop, alg), w, "SM"))
            _guard(T, "eigmin()", lambda: check_extreme(T, "eigmin()", E_.eigmin(Aop), w, "SM"))


def case_eig_degenerate_selfadjoint(T, alg):
    """a self-adjoint operator with a repeated eigenvalue, a (I - p p^T) + b p p^T: the property asks for orthonormal vectors whatever algorithm
    is named.  The general eigensolver (LAPACK geev) is modelled by what its contract allows: unit-norm eigenvectors that are not orthogonal
    inside the degenerate eigenspace"""
    from fractions import Fraction as F
    from cola.linalg.unary.unary import Eig, Eigh
    dt = 'float64'
    u1, u2, pp = [F(2, 3), F(1, 3), F(-2, 3)], [F(2, 3), F(-2, 3), F(1, 3)], [F(1, 3), F(2, 3), F(2, 3)]
    p2 = [(3 * x + 4 * y) / 5 for x, y in zip(u1, u2)]
    P = K.mat(T, [[K.cst(T, c[i]) for c in (u1, p2, pp)] for i in range(3)], dt)
    Vo = K.mat(T, [[K.cst(T, c[i]) for c in (u1, u2, pp)] for i in range(3)], dt)
    a = T.var("a", positive=True)
    g = T.var("gap", positive=True)
    T.assume(g >= 1e-2)
    w = [a, a, a + g]
    z = K.S(T, 0)
    A = Vo @ K.mat(T, [[w[i] if i == j else z for j in range(3)] for i in range(3)], dt) @ Vo.T
    if T.sym:
        from symx import lapack
        lapack.register("eig", K.raw(T, A), (K.raw(T, K.mat(T, [w], dt))[0], K.raw(T, P)))
        lapack.register("eigh", K.raw(T, A), (K.raw(T, K.mat(T, [w], dt))[0], K.raw(T, Vo)))
    Aop = cola.SelfAdjoint(ops.Dense(A))
    E_ = _eigs()
    algo = {"Eig": Eig(), "Eigh": Eigh(), "Auto": cola.linalg.Auto()}[alg]
    for k, which in ((3, "LM"), (2, "SM")):
        tag = f"eig(k={k},{which},{alg})"
        _guard(T, tag, lambda: check_pairs(T, tag, A, *E_.eig(Aop, k, which, algo), w, k, which, True))


def case_eig_general(T, perm, ks):
    """A = P diag(w) P^-1, LAPACK returns the spectrum in the order `perm`"""
    from cola.linalg.unary.unary import Eig
    dt = 'float64'
    n = 3
    Pm = K.mat(T, [[K.S(T, 1), K.S(T, 2), K.S(T, 0)], [K.S(T, 1), K.S(T, 3), K.S(T, 1)], [K.S(T, 0), K.S(T, 1), K.S(T, 2)]], dt)
    Pinv = K.arr(T, K.raw(T, K.exact_solve(T, Pm, K.eye_like(T, n, dt))), dt)
    w = [T.var(f"w{i}") for i in range(n)]
    for i in range(n):
        for j in range(i):
            d = w[i] - w[j]
            T.assume(d * d >= 1e-4)
            s_ = w[i] + w[j]
            T.assume(s_ * s_ >= 1e-4)
    z = K.S(T, 0)
    A = Pm @ K.mat(T, [[w[i] if i == j else z for j in range(n)] for i in range(n)], dt) @ Pinv
    if T.sym:
        from symx import lapack
        wp = [w[i] for i in perm]
        lapack.register("eig", K.raw(T, A), (K.raw(T, K.mat(T, [wp], dt))[0], K.raw(T, Pm)[:, perm]))
    Aop = ops.Dense(A)
    E_ = _eigs()
    for k in ks:
        for which in ("LM", "SM"):
            tag = f"eig(k={k},{which},Eig)"

            def run():
                vals, vecs = E_.eig(Aop, k, which, Eig())
                check_pairs(T, tag, A, vals, vecs, w, k, which, False)

            _guard(T, tag, run)


def case_eig_complex_pair(T, perm, ks):
    """real A = P blockdiag([[a, b], [-b, a]], c) P^-1: spectrum {a + ib, a - ib, c}; LAPACK returns it in the order `perm`"""
    from cola.linalg.unary.unary import Eig
    dt = 'float64'
    n = 3
    Pm = K.mat(T, [[K.S(T, 1), K.S(T, 2), K.S(T, 0)], [K.S(T, 1), K.S(T, 3), K.S(T, 1)], [K.S(T, 0), K.S(T, 1), K.S(T, 2)]], dt)
    Pinv = K.arr(T, K.raw(T, K.exact_solve(T, Pm, K.eye_like(T, n, dt))), dt)
    a, b, c = T.var("a"), T.var("b", positive=True), T.var("c")
    T.assume(b >= 1e-2)
    d = a * a + b * b - c * c
    T.assume(d * d >= 1e-4)
    z = K.S(T, 0)
    A = Pm @ K.mat(T, [[a, b, z], [-b, a, z], [z, z, c]], dt) @ Pinv
    if T.sym:
        from symx.core import Sym
        from symx.terms import Rat
        I_ = Sym(Rat.const(0), Rat.const(1))
        lam = [a + I_ * b, a - I_ * b, c + 0 * I_]
        E3 = np.empty((3, 3), dtype=object)
        for i, row in enumerate([[K.S(T, 1), K.S(T, 1), z], [I_, -I_, z], [z, z, K.S(T, 1)]]):
            for j, x in enumerate(row):
                E3[i, j] = x
        Vc = K.raw(T, Pm) @ E3
        from symx import lapack
        lapack.register("eig", K.raw(T, A), (np.array([lam[i] for i in perm], dtype=object), Vc[:, perm]))
    else:
        lam = [complex(a, b), complex(a, -b), complex(c, 0)]
    Aop = ops.Dense(A)
    E_ = _eigs()
    for k in ks:
        for which in ("LM", "SM"):
            tag = f"eig(k={k},{which},Eig)"

            def run():
                vals, vecs = E_.eig(Aop, k, which, Eig())
                check_pairs(T, tag, A, vals, vecs, lam, k, which, False)

            _guard(T, tag, run)


def case_rule(T, kind, n, ks):
    dt = 'float64'
    E_ = _eigs()
    if kind == "identity":
        Aop = ops.Identity((n, n), np.dtype(dt))
        A = K.eye_like(T, n, dt)
        spec = [K.S(T, 1)] * n
    elif kind == "diag":
        d = T.arr("d", (n, ), dt)
        Aop = ops.Diagonal(d)
        spec = [_it(T, d[i]) for i in range(n)]
        A = K.mat(T, [[spec[i] if i == j else K.S(T, 0) for j in range(n)] for i in range(n)], dt)
    else:
        X = T.arr("L", (n, n), dt).copy()
        lower = kind == "tri-lower"
        for i in range(n):
            for j in range(n):
                if (j > i) if lower else (j < i):
                    X[i, j] = 0.
        Aop = ops.Triangular(X, lower=lower)
        A = X
        spec = [_it(T, X[i, i]) for i in range(n)]
    if kind != "identity":
        for i in range(n):
            for j in range(i):
                d_ = spec[i] - spec[j]
                T.assume(d_ * d_ >= 1e-4)
                s_ = spec[i] + spec[j]
                T.assume(s_ * s_ >= 1e-4)
    for k in ks:
        for which in ("LM", "SM"):
            tag = f"eig(k={k},{which})"

            def run():
                vals, vecs = E_.eig(Aop, k, which, cola.linalg.Auto())
                if kind == "identity":
                    Vd = vecs.to_dense()
                    T.eq(f"{tag}:A V == V diag(lambda)", A @ Vd, Vd * vals[None, :], dtype=False)
                    T.eq(f"{tag}:V^H V == I", Vd.T @ Vd, K.eye_like(T, k, dt), dtype=False)
                else:
                    check_pairs(T, tag, A, vals, vecs, spec, k, which, kind == "diag")

            _guard(T, tag, run)


def case_power(T, variant, coincidence=False):
    """power iteration (and Auto for k=1 'LM', eigmax) on lambda u u^T: converges in finitely many exact steps"""
    from cola.linalg.eig.power_iteration import power_iteration
    from fractions import Fraction as F
    dt = 'float64'
    u = [(F(3, 5), F(4, 5)), (F(5, 13), F(-12, 13))][variant]
    lam = T.var("lam", positive=True)
    T.assume(lam >= 1e-2)
    A = K.mat(T, [[lam * K.cst(T, u[i] * u[j]) for j in range(2)] for i in range(2)], dt)
    Aop = cola.PSD(ops.Dense(A))
    # the loop's stopping test starts from the artificial Rayleigh quotient 10: keep the first real one (lam * (u.v0)^2) away
    # from it, except in the dedicated `coincidence` case (a recorded finding)
    v0 = Aop.xnp.randn(2, dtype=Aop.dtype, device=None, key=7)
    c0 = (float(u[0]) * float(v0[0]) + float(u[1]) * float(v0[1]))**2
    if coincidence:
        T.assume(lam * c0 >= 10 * (1 - 5e-7))
        T.assume(lam * c0 <= 10 * (1 + 5e-7))
    else:
        T.assume(lam * c0 <= 5)
    v, emax, info = power_iteration(Aop, tol=1e-6, max_iter=10, key=7)
    T.eq("power:eigmax == lambda", emax, lam if not T.sym else _w(T, lam, dt), dtype=False)
    T.eq("power:A v == lambda v", A @ v, emax * v, dtype=False)
    E_ = _eigs()
    vals, vecs = E_.eig(Aop, 1, "LM", cola.linalg.Auto(max_iter=10, key=7))
    T.eq("eig(k=1,LM,Auto):value", vals[0], lam if not T.sym else _w(T, lam, dt), dtype=False)
    T.eq("eigmax", E_.eigmax(Aop, cola.linalg.Auto(max_iter=10, key=7)), lam if not T.sym else _w(T, lam, dt), dtype=False)


def _w(T, x, dt):
    from symx.array import W
    return W(x, dt)


def case_krylov(T, which, k, sel, max_iters, complex_=False, scaled=False):
    """eig with Lanczos / Arnoldi algorithm objects, n = 2, at least n iterations"""
    from cola.linalg.decompositions.decompositions import Arnoldi, Lanczos
    dt = 'complex128' if complex_ else 'float64'
    Q = K.basis(T, 2, 0, complex_, dt)
    z = K.S(T, 0)
    if which == "lanczos":
        R = K.cayley2_symbolic(T, "p")
        w0 = T.var("w0")
        g = T.var("gap", positive=True)
        T.assume(g >= 1e-2)
        w = [w0, w0 + g]
        T2 = R @ K.mat(T, [[w[0], z], [z, w[1]]], dt) @ R.T
        Pm = R
    else:
        Pm = K.mat(T, [[K.S(T, 1), K.S(T, 2)], [K.S(T, 1), K.S(T, 3)]], dt)
        Pinv = K.mat(T, [[K.S(T, 3), K.S(T, -2)], [K.S(T, -1), K.S(T, 1)]], dt)
        w = [T.var("w0"), T.var("w1")]
        T2 = Pm @ K.mat(T, [[w[0], z], [z, w[1]]], dt) @ Pinv
        s_ = w[0] + w[1]
        T.assume(s_ * s_ >= 1e-4)
    T.assume(T2[1, 0].real >= 1e-2)
    if scaled:
        # operators of small norm: the termination test of the Krylov iterations is relative, so the scale must not matter
        c = T.var("c", positive=True)
        T.assume(c >= 1e-12)
        T.assume(c <= 1)
        T2 = c * T2
        w = [c * x for x in w]
    A = Q @ T2 @ np.conjugate(Q).T
    s = T.var("s", positive=True)
    T.assume(s >= 1e-2)
    v = s * Q[:, 0]
    if T.sym:
        from symx import lapack
        lapack.register("eigh" if which == "lanczos" else "eig", K.raw(T, T2), (K.raw(T, K.mat(T, [w], dt))[0], K.raw(T, Pm)))
    alg = Lanczos(start_vector=v, max_iters=max_iters, tol=1e-9) if which == "lanczos" else Arnoldi(start_vector=v, max_iters=max_iters, tol=1e-9)
    Aop = cola.SelfAdjoint(ops.Dense(A)) if which == "lanczos" else ops.Dense(A)
    E_ = _eigs()
    tag = f"eig(k={k},{sel},{which},max_iters={max_iters})"

    def run():
        vals, vecs = E_.eig(Aop, k, sel, alg)
        check_pairs(T, tag, A, vals, vecs, w, k, sel, which == "lanczos")

    _guard(T, tag, run)


def cases(tier, seed):
    out = []
    for alg in ("Eig", "Eigh", "Auto"):
        out.append((f"degenerate-selfadjoint:{alg}", case_eig_degenerate_selfadjoint, dict(alg=alg), dict(partial_ok=True)))
    out.append(("eigh:n2", case_eigh, dict(n=2, ks=[1, 2], algs=["Eigh", "Auto"])))
    out.append(("eigh:n3", case_eigh, dict(n=3, ks=[1, 2, 3], algs=["Eigh"])))
    out.append(("eigh-complex:n2", case_eigh, dict(n=2, ks=[1, 2], algs=["Eigh", "Auto"], complex_=True)))
    out.append(("eigh-complex:n3", case_eigh, dict(n=3, ks=[1, 3], algs=["Eigh"], complex_=True)))
    for perm in ((0, 1, 2), (2, 0, 1), (1, 2, 0)):
        out.append((f"eig-complex-pair:order{''.join(map(str, perm))}", case_eig_complex_pair, dict(perm=list(perm), ks=[1, 2, 3])))
    for perm in itertools.permutations(range(3)):
        out.append((f"eig-general:order{''.join(map(str, perm))}", case_eig_general, dict(perm=list(perm), ks=[1, 2, 3])))
    for kind in ("identity", "diag", "tri-lower", "tri-upper"):
        for n in (2, 3):
            out.append((f"rule:{kind}:n{n}", case_rule, dict(kind=kind, n=n, ks=list(range(1, n + 1))), dict(abs_gen=False, max_paths=40)))
    for variant in (0, 1):
        out.append((f"power:v{variant}", case_power, dict(variant=variant)))
    for sel in ("LM", "SM"):
        out.append((f"arnoldi-complex:k2{sel}", case_krylov, dict(which="arnoldi", k=2, sel=sel, max_iters=2, complex_=True)))
        out.append((f"lanczos-complex:k2{sel}", case_krylov, dict(which="lanczos", k=2, sel=sel, max_iters=2, complex_=True)))
        out.append((f"lanczos-scaled:k2{sel}", case_krylov, dict(which="lanczos", k=2, sel=sel, max_iters=3, scaled=True)))
    for variant in (0, 1):
        out.append((f"power-coincidence:v{variant}", case_power, dict(variant=variant, coincidence=True), dict(validate=False)))
    for which in ("lanczos", "arnoldi"):
        for k in (1, 2):
            for sel in ("LM", "SM"):
                for m in (2, 3, 40):
                    out.append((f"{which}:k{k}{sel}m{m}", case_krylov, dict(which=which, k=k, sel=sel, max_iters=m)))
    return out


BOUNDS = dict(dense="Eigh n in {2,3} (all k, LM/SM, Eigh() and Auto()); Eig n = 3 with all 6 output orders of LAPACK", rules="Identity, Diagonal (unsorted, sign-free "
              "entries), Triangular lower and upper, n in {2,3}, all k", krylov="Lanczos / Arnoldi algorithm objects, n = 2, max_iters in {2, 3, 40}", power="rank-one "
              "PSD inputs, two directions, power_iteration / Auto k=1 LM / eigmax", values="spectra, rotation parameters, scales symbolic (definite and indefinite)")
BOUNDS["added"] = 'self-adjoint operator with a repeated eigenvalue through Eig() / Eigh() / Auto() (non-orthogonal LAPACK basis modelled)'

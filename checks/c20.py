"""C20 — indexing and slicing an operator match indexing the represented matrix.

For every operator tree of the bound, *every* integer index in [-n, n), integer pairs, row / column
extraction with slices, a family of slice pairs (negative starts / stops / steps, empty results), integer
index arrays combined with slices and with each other, and list pairs are passed to the real
`__getitem__`; scalars / vectors are compared with the same NumPy index expression applied to the
reference matrix, sub-operators through their dense form, their shape and their action on (complex) operands."""
import numpy as np

import cola

from .c01 import C8, C16, F4, F8
from .common import Ref, build, expected, expected_arr, ref_index, ref_matmul, rfrom, slice_indices, tree_name, tree_shape

PROPERTY = "C20"
OPTS = {
    "quick": dict(max_paths=8, case_budget_s=150, zdag=True),
    "thorough": dict(max_paths=16, case_budget_s=600, zdag=True),
}
ASSUMPTIONS = [
    "A[rows_array, cols_array] with two integer index arrays is compared with the documented semantics of the lazy slice operator "
    "(A[rows, :][:, cols], i.e. np.ix_), A[[i...],[j...]] with two python lists with NumPy's pairwise semantics (as in the repo's own test)",
]


def _try(T, tag, thunk):
    from symx.core import Inconclusive, PathAbort
    from symx.harness import CaseTimeout
    try:
        return thunk()
    except (Inconclusive, PathAbort, CaseTimeout):
        raise
    except Exception as e:
        T.check(f"{tag}:!exception", False, f"{type(e).__name__}: {e}"[:300])
        return None


def case_ints(T, tree):
    A, R = build(T, tree)
    m, n = A.shape
    M = R.a
    for i in range(-m, m):
        got = _try(T, f"A[{i}]", lambda: A[i])
        if got is not None:
            T.eq(f"A[{i}]", got, expected_arr(T, M[i], R.dt))
        got = _try(T, f"A[{i},:]", lambda: A[i, :])
        if got is not None:
            T.eq(f"A[{i},:]", got, expected_arr(T, M[i, :], R.dt))
        for j in range(-n, n):
            got = _try(T, f"A[{i},{j}]", lambda: A[i, j])
            if got is not None:
                T.eq(f"A[{i},{j}]", got, expected_arr(T, M[i, j], R.dt))
    for j in range(-n, n):
        got = _try(T, f"A[:,{j}]", lambda: A[:, j])
        if got is not None:
            T.eq(f"A[:,{j}]", got, expected_arr(T, M[:, j], R.dt))
    # integer with slice on the other axis
    for sl in (slice(1, None), slice(None, None, -1), slice(0, 0), slice(None, None, 2), slice(-2, None)):
        i, j = m - 1, -n
        got = _try(T, f"A[{i},{_s(sl)}]", lambda: A[i, sl])
        if got is not None:
            T.eq(f"A[{i},{_s(sl)}]", got, expected_arr(T, M[i, sl], R.dt))
        got = _try(T, f"A[{_s(sl)},{j}]", lambda: A[sl, j])
        if got is not None:
            T.eq(f"A[{_s(sl)},{j}]", got, expected_arr(T, M[sl, j], R.dt))


def _s(sl):
    return ":".join("" if x is None else str(x) for x in (sl.start, sl.stop, sl.step))


def _obs_sub(T, tag, S, Mref, dt, xdt):
    if not isinstance(S, cola.ops.LinearOperator):
        T.check(f"{tag}:is-operator", False, f"{type(S).__name__}")
        return
    T.check(f"{tag}:shape", tuple(S.shape) == tuple(Mref.shape), f"{S.shape} vs {Mref.shape}")
    if 0 in Mref.shape:
        return
    T.eq(f"{tag}:to_dense", S.to_dense(), expected_arr(T, Mref, dt))
    k = Mref.shape[1]
    X = T.arr("X" + str(abs(hash(tag)) % 10**8), (k, 2), xdt)
    want = ref_matmul(T, Ref(Mref, dt), Ref(rfrom(T, X), xdt))
    T.eq(f"{tag}@X", S @ X, expected(T, want))
    Y = T.arr("Y" + str(abs(hash(tag)) % 10**8), (Mref.shape[0], ), xdt)
    want = ref_matmul(T, Ref(rfrom(T, Y.reshape(1, -1)), xdt), Ref(Mref, dt))
    T.eq(f"y@{tag}", Y @ S, expected(T, want).reshape(-1))
    # indexing the sub-operator again, and its transpose
    T.eq(f"{tag}[0]", S[0], expected_arr(T, Mref[0], dt))
    T.eq(f"{tag}[-1,:]", S[-1, :], expected_arr(T, Mref[-1, :], dt))
    T.eq(f"{tag}[:,0]", S[:, 0], expected_arr(T, Mref[:, 0], dt))
    T.eq(f"{tag}[-1,0]", S[-1, 0], expected_arr(T, Mref[-1, 0], dt))
    T.eq(f"{tag}.T:to_dense", S.T.to_dense(), expected_arr(T, Mref.T, dt))


def case_slices(T, tree, pairs, xdt):
    A, R = build(T, tree)
    m, n = A.shape
    M = R.a
    for s0, s1 in pairs:
        i0, rows = slice_indices(s0, m)
        i1, cols = slice_indices(s1, n)
        tag = f"A[{_sn(s0)},{_sn(s1)}]" + ("#repr" if len(set(rows)) < len(rows) else "") + ("#repc" if len(set(cols)) < len(cols) else "")
        Mref = M[np.ix_(rows, cols)]
        keep = [np.array(i, copy=True) if isinstance(i, np.ndarray) else None for i in (i0, i1)]
        S = _try(T, tag, lambda: A[i0, i1])
        if S is not None:
            _try(T, tag, lambda: _obs_sub(T, tag, S, Mref, R.dt, xdt))
        # the caller's index arrays are inputs: unchanged afterwards (they may be used again, on an axis of another length)
        for ax, (i_, k_) in enumerate(zip((i0, i1), keep)):
            if k_ is not None:
                T.check(f"{tag}: index array of axis {ax} unchanged", bool(np.array_equal(i_, k_)), f"{k_} -> {i_}")
    # a single slice / index array selects rows
    for s0 in [p[0] for p in pairs[:3]]:
        i0, rows = slice_indices(s0, m)
        tag = f"A[{_sn(s0)}]" + ("#repr" if len(set(rows)) < len(rows) else "")
        S = _try(T, tag, lambda: A[i0])
        if S is not None:
            _try(T, tag, lambda: _obs_sub(T, tag, S, M[rows, :], R.dt, xdt))


def _sn(s):
    if s[0] == 's':
        return ":".join("" if x is None else str(x) for x in s[1:])
    return "i" + ".".join(map(str, s[1]))


def case_lists(T, tree, lists):
    A, R = build(T, tree)
    M = R.a
    for li, lj in lists:
        tag = f"A[{li},{lj}]"
        got = _try(T, tag, lambda: A[list(li), list(lj)])
        if got is not None:
            T.eq(tag, got, expected_arr(T, M[list(li), list(lj)], R.dt))


def pairs_for(m, n, rich):
    S = lambda a, b, c: ["s", a, b, c]  # noqa
    out = [(S(None, None, None), S(None, None, None)), (S(1, None, None), S(None, -1, None)), (S(None, None, -1), S(None, None, 2)),
           (S(-2, None, None), S(0, n, 1)), (S(None, None, 2), S(-1, None, -1)), (S(0, 1, None), S(n - 1, None, None)),
           (S(m, None, None), S(None, None, None)), (S(None, None, None), S(1, 1, None)),
           (["i", [m - 1, 0]], S(None, None, None)), (S(None, None, None), ["i", [0, -1, 0]]), (["i", [0, -1]], ["i", [n - 1, 0, 0]]),
           (["i", [-1]], S(None, None, -1)), (["i", [0, m - 1][:m]], ["i", [n - 1, 0][:n]]), (S(None, None, None), ["i", list(range(n))[::-1]])]
    # off-diagonal blocks of equal extent whose selectors look alike only after clipping (negative start against a zero start)
    out += [(S(-2, None, None), S(None, 2, None)), (S(None, 2, None), S(-2, None, None)), (S(-1, None, None), S(0, 1, None))]
    if rich:
        out += [(S(a, b, c), S(b, a, c)) for a in (None, 0, 1, -1) for b in (None, 2, -1) for c in (None, 1, 2, -1, -2)]
    seen, uniq = set(), []
    for p in out:
        key = (_sn(p[0]), _sn(p[1]))
        if key not in seen:
            seen.add(key)
            uniq.append(p)
    return uniq


def cases(tier, seed):
    out = []
    rich = tier == "thorough"
    trees = [["dense", 2, 3, F8], ["dense", 3, 2, C16], ["dense", 3, 3, F4], ["dense", 1, 3, F8], ["dense", 3, 1, F8], ["diag", 3, F8], ["scalar", 2, C8],
             ["identity", 3, F8], ["tri", 3, 1, F8], ["tridiag", 3, F8], ["perm", [1, 2, 0], F8], ["householder", 2, F8],
             ["product", ["dense", 2, 3, F8], ["dense", 3, 4 - 1, F8]], ["product", ["dense", 3, 2, F8], ["dense", 2, 2, F8]],
             ["sum", ["dense", 2, 3, F8], ["dense", 2, 3, C8]], ["kron", ["dense", 2, 1, F8], ["dense", 1, 3, F8]],
             ["kron", ["dense", 2, 2, F8], ["dense", 1, 2, F8]], ["kronsum", ["dense", 2, 2, F8], ["dense", 2, 2, F8]],
             ["blockdiag", [["dense", 1, 2, F8], ["dense", 2, 1, F8]], [2, 1]], ["transpose", ["dense", 2, 3, C8]], ["adjoint", ["dense", 3, 2, C16]],
             ["T", ["kron", ["dense", 2, 1, F8], ["dense", 1, 3, F8]]], ["sliced", ["dense", 4, 4, F8], ["s", 1, None, None], ["s", None, None, 2]],
             ["sliced", ["dense", 4, 3, F8], ["i", [3, 0, 1]], ["s", None, None, -1]], ["concat", [["dense", 2, 3, F8], ["dense", 1, 3, F8]], 0],
             ["concat", [["dense", 2, 1, F8], ["dense", 2, 2, F8]], 1], ["generic", ["dense", 2, 3, F8]], ["selfadj", 3, C16], ["psd", 2, F8], ["selfadj", 3, F8], ["psd", 3, C16],
             ["kron", ["selfadj", 2, F8], ["psd", 2, F8]], ["kron", ["selfadj", 2, C16], ["psd", 1, C16]], ["blockdiag", [["selfadj", 2, C16]], [1]],
             ["kronsum", ["selfadj", 2, C16], ["psd", 1, C16]],
             ["fft", 4, C16], ["kernel", 3, 2, 2, 2, F8]]
    if rich:
        trees += [["dense", 4, 4, F8], ["dense", 2, 4, C16], ["kron", ["dense", 2, 2, F8], ["dense", 2, 2, F8]],
                  ["blockdiag", [["dense", 2, 2, F8]], [2]], ["sliced", ["kron", ["dense", 2, 2, F8], ["dense", 2, 2, F8]], ["s", None, None, 2], ["s", 1, None, None]],
                  ["product", ["scalar", 3, F8], ["dense", 3, 4, F8]]]
    # seeded random trees of depth <= 3 (8 fixed samples, selected by VERIF_SEED mod 8)
    from .common import random_trees
    trees += [t for t in random_trees(4000 + seed % 8, 12 if not rich else 400) if tree_name(t) not in {tree_name(x) for x in trees}]
    # blocks of annotated composites whose two starts both lie beyond the block's own extent
    S_ = lambda a, b, c: ["s", a, b, c]  # noqa
    for t, prs in ((["kron", ["selfadj", 2, F8], ["psd", 3, F8]], [(S_(2, 4, None), S_(4, 6, None)), (S_(4, 6, None), S_(2, 4, None)), (S_(-2, None, None), S_(None, 2, None))]),
                   (["psd", 4, F8], [(S_(2, 3, None), S_(3, 4, None)), (S_(-2, None, None), S_(None, 2, None)), (S_(1, 3, None), S_(-2, None, None))]),
                   (["blockdiag", [["selfadj", 2, C16], ["psd", 2, C16]], [1, 1]], [(S_(-2, None, None), S_(None, 2, None)), (S_(2, 4, None), S_(0, 2, None))])):
        out.append((f"blk:{tree_name(t)}", case_slices, dict(tree=t, pairs=prs, xdt=C16)))
    for t in trees:
        m, n = tree_shape(t)
        out.append((f"int:{tree_name(t)}", case_ints, dict(tree=t)))
        ps = pairs_for(m, n, rich)
        out.append((f"slc:{tree_name(t)}", case_slices, dict(tree=t, pairs=ps, xdt=C16)))
        if t[0] in ("dense", "diag", "sliced", "product", "tridiag") and rich:
            out.append((f"slr:{tree_name(t)}", case_slices, dict(tree=t, pairs=ps[:6], xdt=F8)))
        lists = [([0, m - 1], [n - 1, -1]), ([0], [0]), ([-1, 0, -1], [0, n - 1, 0])]
        out.append((f"lst:{tree_name(t)}", case_lists, dict(tree=t, lists=lists)))
    return out


BOUNDS = dict(
    trees="31 operator trees (every leaf kind, Product/Sum/Kronecker/KronSum/BlockDiag/Transpose/Adjoint/Sliced/Concatenated/generic/annotated; "
    "square, tall, wide, 1xN, Nx1; real and complex); thorough adds 6 larger ones",
    indices="all integers in [-m, m) x [-n, n); 12 slice / index-array pairs per tree (thorough: +60 start/stop/step combinations incl. negative "
    "and empty); single-selector row slices; 3 list pairs", operands="complex128 (and float64) 2-column right operands and left vectors "
    "applied to every sub-operator", values="all payloads symbolic")
BOUNDS["added"] = 'off-diagonal blocks of annotated operators whose selectors coincide only after clipping'

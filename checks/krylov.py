"""Inverse parametrisations shared by the Krylov checks (C12-C15, C09, C10, C16): instead of a symbolic dense
matrix plus orthogonality hypotheses, the input is constructed *from* the decomposition the routine must find,
(A, v) := (Q T Q^H, s Q e1), with a concrete rational (or, for n = 2, symbolic Cayley) orthogonal / unitary Q and
symbolic Krylov coefficients.  Everything works in both harness modes (symbolic / concrete floats)."""
from fractions import Fraction as F

import numpy as np


def is_sym(T):
    return bool(T.sym)


def S(T, x):
    """scalar constant in the mode's arithmetic"""
    if is_sym(T):
        from symx.core import C
        return C(x)
    if isinstance(x, F):
        return float(x)
    if isinstance(x, tuple):
        return complex(float(x[0]), float(x[1]))
    return x


def cst(T, re, im=0):
    if is_sym(T):
        from symx.core import Sym
        from symx.terms import Rat
        return Sym(Rat.const(F(re)), Rat.const(F(im)))
    return complex(float(re), float(im)) if im else float(re)


def mat(T, rows, dtype):
    """nested lists of scalars -> array of the mode (SymArray / ndarray)"""
    a = np.empty((len(rows), len(rows[0]) if rows else 0), dtype=object)
    for i, r in enumerate(rows):
        for j, x in enumerate(r):
            a[i, j] = x
    return arr(T, a, dtype)


def arr(T, objarr, dtype):
    if is_sym(T):
        from symx.array import W
        from symx.core import C
        o = np.empty(objarr.shape, dtype=object)
        for idx in np.ndindex(*objarr.shape):
            o[idx] = C(objarr[idx])
        return W(o, dtype)
    o = np.empty(objarr.shape, dtype=complex)
    for idx in np.ndindex(*objarr.shape):
        x = objarr[idx]
        o[idx] = complex(x) if not isinstance(x, F) else float(x)
    dt = np.dtype(dtype)
    return (o.real if dt.kind != 'c' else o).astype(dt)


def raw(T, a):
    """array -> object ndarray of mode scalars"""
    if is_sym(T):
        from symx.array import _raw
        return _raw(a)
    return np.asarray(a).astype(object)


# ---- exact rational orthogonal / unitary bases -------------------------------------------------
def _finv(M):
    """exact inverse of a square matrix of Fractions / (re, im) pairs represented as python complex-of-Fractions"""
    n = len(M)
    A = [list(r) + [CF(1) if i == j else CF(0) for j in range(n)] for i, r in enumerate(M)]
    for c in range(n):
        p = next(r for r in range(c, n) if not A[r][c].iszero())
        A[c], A[p] = A[p], A[c]
        inv = A[c][c].inv()
        A[c] = [x * inv for x in A[c]]
        for r in range(n):
            if r != c and not A[r][c].iszero():
                f = A[r][c]
                A[r] = [x - f * y for x, y in zip(A[r], A[c])]
    return [r[n:] for r in A]


class CF:
    """exact Gaussian rational"""
    __slots__ = ("re", "im")

    def __init__(s, re, im=0):
        s.re = F(re)
        s.im = F(im)

    def __add__(a, b):
        return CF(a.re + b.re, a.im + b.im)

    def __sub__(a, b):
        return CF(a.re - b.re, a.im - b.im)

    def __neg__(a):
        return CF(-a.re, -a.im)

    def __mul__(a, b):
        return CF(a.re * b.re - a.im * b.im, a.re * b.im + a.im * b.re)

    def conj(a):
        return CF(a.re, -a.im)

    def inv(a):
        d = a.re * a.re + a.im * a.im
        return CF(a.re / d, -a.im / d)

    def iszero(a):
        return a.re == 0 and a.im == 0


def cayley(n, variant=0, complex_=False):
    """(I - K)(I + K)^-1 for a generic rational skew-symmetric / skew-Hermitian K: orthogonal / unitary with all entries
    non-zero rationals.  `variant` changes K (several bases per size)."""
    K = [[CF(0) for _ in range(n)] for _ in range(n)]
    cnt = 1 + 3 * variant
    for i in range(n):
        for j in range(i + 1, n):
            re = F(cnt, cnt + 2 + variant)
            im = F(cnt + 1, 2 * cnt + 3) if complex_ else F(0)
            K[i][j] = CF(re, im)
            K[j][i] = CF(-re, im)  # -conj
            cnt += 1
        if complex_:
            K[i][i] = CF(0, F(i + 1, i + 3 + variant))
    I = [[CF(1) if i == j else CF(0) for j in range(n)] for i in range(n)]
    ImK = [[I[i][j] - K[i][j] for j in range(n)] for i in range(n)]
    IpK = [[I[i][j] + K[i][j] for j in range(n)] for i in range(n)]
    inv = _finv(IpK)
    Q = [[sum((ImK[i][k] * inv[k][j] for k in range(n)), CF(0)) for j in range(n)] for i in range(n)]
    return Q


def basis(T, n, variant=0, complex_=False, dtype=None):
    """concrete orthogonal/unitary n x n basis as a mode array"""
    dtype = dtype or ('complex128' if complex_ else 'float64')
    if variant < 0:
        # identity basis: invariant subspaces are exact in floating point as well (needed to replay exact breakdowns)
        return eye_like(T, n, dtype)
    Q = cayley(n, variant, complex_)
    rows = [[cst(T, q.re, q.im) for q in r] for r in Q]
    return mat(T, rows, dtype)


def cayley2_symbolic(T, name="t", flip=False, dtype='float64'):
    """all of SO(2) except the rotation by pi (and with flip: the reflections): [[1-t^2, -2t],[2t, 1-t^2]] / (1+t^2)"""
    t = T.var(name)
    one = S(T, 1)
    d = one + t * t
    c, s = (one - t * t) / d, (2 * t) / d
    rows = [[c, -s], [s, c]]
    if flip:
        rows = [[c, s], [s, -c]]
    return mat(T, rows, dtype)


def matmul_obj(A, B):
    return A @ B


def H_(T, A):
    return np.conjugate(A).T if not is_sym(T) else np.conjugate(A).T


def tridiag(T, al, be, n, dtype):
    """symmetric tridiagonal with diagonal al[0..n-1], off-diagonal be[0..n-2] (mode scalars)"""
    z = S(T, 0)
    rows = [[z for _ in range(n)] for _ in range(n)]
    for i in range(n):
        rows[i][i] = al[i]
    for i in range(n - 1):
        rows[i][i + 1] = be[i]
        rows[i + 1][i] = be[i]
    return mat(T, rows, dtype)


def eye_like(T, n, dtype):
    return mat(T, [[S(T, 1 if i == j else 0) for j in range(n)] for i in range(n)], dtype)


def zeros_like_mode(T, shape, dtype):
    a = np.empty(shape, dtype=object)
    for idx in np.ndindex(*shape):
        a[idx] = S(T, 0)
    return arr(T, a, dtype)


def exact_solve(T, A, B):
    """exact (symbolic) or LAPACK (concrete) solve used by oracles"""
    if is_sym(T):
        from symx import lapack
        return lapack.solve(A, B)
    return np.linalg.solve(A, B)

"""C11 — cholesky and plu return structured factors that reproduce the operator.

cholesky(A) on A := L0 L0^H (onto all Hermitian positive definite matrices) and on positive Diagonal / ScalarMul / Identity /
Kronecker / BlockDiag compositions; plu(A) on free symbolic dense A (pivot orders are solver-explored paths) and on the
structural rules.  Obligations for all payload values: L L^H == M, P L U == M, triangularity of the dense forms, the kinds of
the returned operators (factor-wise structure), and that no square root of a possibly-negative quantity is taken."""
import numpy as np

import cola
from cola import ops

from . import krylov as K
from .c01 import C16, F8
from .c07 import _c
from .common import Ref, build, expected, ref_blockdiag, ref_kron, tree_name

PROPERTY = "C11"
OPTS = {
    "quick": dict(max_paths=40, case_budget_s=200, flip_timeout_ms=8000, abs_gen=True),
    "thorough": dict(max_paths=200, case_budget_s=900, flip_timeout_ms=20000, abs_gen=True),
}
ASSUMPTIONS = ["dense positive definite inputs are parametrised as L0 L0^H with positive diagonal (onto); positive Diagonal / ScalarMul payloads for cholesky",
               "plu inputs are non-singular (pivots met in denominators are assumed non-zero)"]


def _dec():
    import importlib
    return importlib.import_module("cola.linalg.decompositions.decompositions")


def psd_leaf(T, name, n, complex_):
    dt = 'complex128' if complex_ else 'float64'
    z = K.S(T, 0)
    rows = [[z for _ in range(n)] for _ in range(n)]
    for i in range(n):
        for j in range(i + 1):
            rows[i][j] = T.var(f"{name}{i}{j}", positive=True) if i == j else (T.var(f"{name}{i}{j}") if not complex_ else _c(T, f"{name}{i}{j}"))
    L = K.mat(T, rows, dt)
    M = L @ np.conjugate(L).T
    return cola.PSD(ops.Dense(M)), Ref(K.raw(T, M), dt)


def build_psd(T, tree, pfx="P"):
    """PSD operator trees for cholesky: leaves 'psd', 'pdiag', 'pscalar', 'identity'; composites 'kron', 'blockdiag'"""
    kind = tree[0]
    if kind == "psd":
        return psd_leaf(T, pfx, tree[1], tree[2])
    if kind == "upsd":
        # the same matrix WITHOUT the PSD declaration (cholesky does not ask for it; only inv / logdet with Cholesky() do)
        A, R = psd_leaf(T, pfx, tree[1], tree[2])
        return ops.Dense(A.A), R
    if kind == "pdiag":
        n = tree[1]
        d = T.arr(pfx + "d", (n, ), 'float64', positive=True)
        R = K.raw(T, K.zeros_like_mode(T, (n, n), 'float64')).copy()
        dr = K.raw(T, d)
        for i in range(n):
            R[i, i] = dr[i]
        return cola.PSD(ops.Diagonal(d)), Ref(R, 'float64')
    if kind == "pscalar":
        n = tree[1]
        c = T.scalar(pfx + "c", 'float64', positive=True)
        R = K.raw(T, K.zeros_like_mode(T, (n, n), 'float64')).copy()
        ce = K.raw(T, c.reshape(1, 1))[0, 0]
        for i in range(n):
            R[i, i] = ce
        return cola.PSD(ops.ScalarMul(c, (n, n), dtype=np.dtype('float64'))), Ref(R, 'float64')
    if kind == "identity":
        n = tree[1]
        R = K.raw(T, K.eye_like(T, n, 'float64'))
        return ops.Identity((n, n), np.dtype('float64')), Ref(R, 'float64')
    if kind == "kron":
        subs = [build_psd(T, t, f"{pfx}{i}") for i, t in enumerate(tree[1:])]
        R = subs[0][1]
        for s in subs[1:]:
            R = ref_kron(T, R, s[1])
        return ops.Kronecker(*[s[0] for s in subs]), R
    if kind == "blockdiag":
        subs = [build_psd(T, t, f"{pfx}{i}") for i, t in enumerate(tree[1])]
        blocks = []
        for (A, R), m in zip(subs, tree[2]):
            blocks += [R] * m
        return ops.BlockDiag(*[s[0] for s in subs], multiplicities=list(tree[2])), ref_blockdiag(T, blocks)
    raise ValueError(kind)


def pname(tree):
    k = tree[0]
    if k in ("psd", "upsd"):
        return f"{k}{tree[1]}{'c' if tree[2] else ''}"
    if k in ("pdiag", "pscalar", "identity"):
        return f"{k}{tree[1]}"
    if k == "kron":
        return "kron(" + ",".join(pname(t) for t in tree[1:]) + ")"
    return "bd(" + ",".join(f"{pname(t)}^{m}" for t, m in zip(tree[1], tree[2])) + ")"


EXPECTED_KIND = {"upsd": "Triangular", "psd": "Triangular", "pdiag": "Diagonal", "pscalar": ("ScalarMul", "Product"), "identity": "Identity", "kron": "Kronecker", "blockdiag": "BlockDiag"}


def _kind_ok(op, tree):
    want = EXPECTED_KIND[tree[0]]
    want = want if isinstance(want, tuple) else (want, )
    name = type(op).__name__.split("[")[0]
    if name not in want:
        return False, f"{name} for {tree[0]}"
    if tree[0] == "kron":
        for M, t in zip(op.Ms, tree[1:]):
            ok, why = _kind_ok(M, t)
            if not ok:
                return ok, why
    if tree[0] == "blockdiag":
        for M, t in zip(op.Ms, tree[1]):
            ok, why = _kind_ok(M, t)
            if not ok:
                return ok, why
    return True, ""


def _tri(T, tag, D, lower):
    n = D.shape[0]
    idx = [(i, j) for i in range(n) for j in range(n) if (j > i if lower else j < i)]
    if idx:
        vals = K.mat(T, [[_it(T, D[i, j]) for (i, j) in idx]], D.dtype)
        T.eq(tag, vals, K.zeros_like_mode(T, (1, len(idx)), D.dtype), dtype=False)


def _it(T, x):
    if T.sym:
        from symx.array import SymArray
        return x.raw.item() if isinstance(x, SymArray) else x
    return complex(x)


def _sqrt_domain(T, tag):
    """every square root taken so far had a provably non-negative argument"""
    if T.sym:
        ev = T.domain_events("sqrt")
        T.true(f"{tag}:sqrt-arguments-non-negative", [_SB(e) for k, e in ev], assume_domain=False)


class _SBwrap:
    pass


def _SB(e):
    from symx.core import SymBool
    return SymBool(e, True)


def case_cholesky(T, tree):
    from symx.core import Inconclusive, PathAbort
    from symx.harness import CaseTimeout
    A, R = build_psd(T, tree)
    n_params = len(A.flatten()[0])
    try:
        L = _dec().cholesky(A)
    except (Inconclusive, PathAbort, CaseTimeout):
        raise
    except Exception as e:
        T.check("cholesky:!exception", False, f"{type(e).__name__}: {e}"[:300])
        return
    ok, why = _kind_ok(L, tree)
    T.check("cholesky:structured-factor", ok, why)
    Ld = L.to_dense()
    T.eq("cholesky:L L^H == A", Ld @ np.conjugate(Ld).T, expected(T, R), dtype=False)
    _tri(T, "cholesky:L-lower-triangular", Ld, True)
    Lh = L.H.to_dense()
    T.eq("cholesky:(L.H) == L^H", Lh, np.conjugate(Ld).T, dtype=False)
    # the factorisation leaves no trace on the operator: same parameters afterwards, and an operator rebuilt from transformed parameters is
    # factorised on its own merits (c * A has the factor sqrt(c) * L: checked as L2 L2^H == c^k A for k leaves scaled by c = 4)
    params, unflatten = A.flatten()
    T.check("cholesky: the operator has the same parameters afterwards", len(params) == n_params, f"{n_params} parameters before, {len(params)} after")
    if len(params) == n_params and all(hasattr(p_, "shape") for p_ in params):
        A2 = unflatten([4.0 * p_ for p_ in params])
        try:
            L2d = _dec().cholesky(A2).to_dense()
            from .common import ref_scale
            scale = 4.0**(_scaling_degree(tree) or 0)
            if _scaling_degree(tree) is not None:
                T.eq("cholesky(rebuilt from 4 * parameters): L L^H == 4^k A", L2d @ np.conjugate(L2d).T, scale * expected(T, R), dtype=False)
        except (Inconclusive, PathAbort, CaseTimeout):
            raise
        except Exception as e:
            T.check("cholesky(rebuilt):!exception", False, f"{type(e).__name__}: {e}"[:300])


def _scaling_degree(tree):
    """degree of homogeneity of the represented matrix in a common scaling of all array parameters; None-free for the trees used"""
    k = tree[0]
    if k in ("psd", "upsd", "pdiag", "pscalar"):
        return 1
    if k == "identity":
        return 0
    if k == "kron":
        return sum(_scaling_degree(t) for t in tree[1:])
    degs = {_scaling_degree(t) for t in tree[1]}
    return degs.pop() if len(degs) == 1 else None


def case_plu(T, tree, structured=None):
    from symx.core import Inconclusive, PathAbort
    from symx.harness import CaseTimeout
    A, R = build(T, tree)
    try:
        P, L, U = _dec().plu(A)
    except (Inconclusive, PathAbort, CaseTimeout):
        raise
    except Exception as e:
        T.check("plu:!exception", False, f"{type(e).__name__}: {e}"[:300])
        return
    _sqrt_domain(T, "plu")
    Pd, Ld, Ud = P.to_dense(), L.to_dense(), U.to_dense()
    T.eq("plu:P L U == A", Pd @ Ld @ Ud, expected(T, R), dtype=False)
    _tri(T, "plu:L-lower-triangular", Ld, True)
    _tri(T, "plu:U-upper-triangular", Ud, False)
    T.eq("plu:P-is-a-permutation", Pd @ Pd.T, K.eye_like(T, Pd.shape[0], Pd.dtype), dtype=False)
    if structured:
        names = [type(x).__name__.split("[")[0] for x in (P, L, U)]
        T.check("plu:structured-factors", all(n in structured for n in names), f"{names}")
        if structured == ["Kronecker"] or structured == ["BlockDiag"]:
            T.check("plu:factor-wise", all(len(x.Ms) == len(A.Ms) for x in (P, L, U)), "number of factors changed")


def case_sequence(T, trees, what):
    """the factorisations do not depend on what was factorised before in the process: a stream of unrelated operators, each built, factorised,
    checked and dropped (object addresses get reused), then the first one again with a refreshed payload"""
    import gc
    for i, tree in enumerate(trees + trees[:2]):
        if what == "cholesky":
            A, R = build_psd(T, tree, pfx=f"S{i}")
            L = _dec().cholesky(A)
            Ld = L.to_dense()
            T.eq(f"cholesky #{i} {pname(tree)}: L L^H == A", Ld @ np.conjugate(Ld).T, expected(T, R), dtype=False)
        else:
            A, R = build(T, tree, pfx=f"S{i}")
            P, L, U = _dec().plu(A)
            T.eq(f"plu #{i} {tree_name(tree)}: P L U == A", P.to_dense() @ L.to_dense() @ U.to_dense(), expected(T, R), dtype=False)
        del A, L
        gc.collect()


def cases(tier, seed):
    out = []
    seq = [["kron", ["psd", 2, False], ["psd", 1, False]], ["kron", ["psd", 1, False], ["psd", 2, False]], ["kron", ["pdiag", 2], ["psd", 2, False]],
           ["kron", ["psd", 2, False], ["pdiag", 2]], ["kron", ["psd", 1, False], ["psd", 1, False], ["psd", 2, False]], ["kron", ["psd", 2, True], ["psd", 1, False]]]
    out.append(("sequence:cholesky(kron)", case_sequence, dict(trees=seq, what="cholesky"), dict(partial_ok=True)))
    seqp = [["kron", ["dense", 2, 2, F8], ["dense", 1, 1, F8]], ["kron", ["dense", 1, 1, F8], ["dense", 2, 2, F8]], ["kron", ["diag", 2, F8], ["dense", 2, 2, F8]],
            ["blockdiag", [["dense", 2, 2, F8]], [2]], ["kron", ["dense", 2, 2, F8], ["identity", 2, F8]]]
    out.append(("sequence:plu(kron)", case_sequence, dict(trees=seqp, what="plu"), dict(partial_ok=True, max_paths=12)))
    chol = [["psd", 1, False], ["psd", 2, False], ["psd", 3, False], ["psd", 2, True], ["pdiag", 3], ["pscalar", 2], ["identity", 3],
            ["kron", ["psd", 2, False], ["psd", 3, False]], ["kron", ["psd", 2, False], ["pdiag", 3]], ["kron", ["psd", 2, True], ["psd", 1, False], ["pdiag", 2]],
            ["kron", ["psd", 2, False], ["identity", 2], ["pscalar", 2]],
            ["blockdiag", [["psd", 2, False], ["pdiag", 1]], [2, 3]], ["blockdiag", [["psd", 1, False], ["psd", 2, True]], [1, 2]],
            ["blockdiag", [["kron", ["psd", 2, False], ["pdiag", 2]], ["psd", 2, False]], [1, 2]],
            ["kron", ["blockdiag", [["psd", 1, False], ["pdiag", 1]], [1, 2]], ["psd", 2, False]]]
    # the matrix without the declaration (alone and inside Kronecker / BlockDiag), nested BlockDiag with multiplicities at both levels
    chol += [["upsd", 2, False], ["upsd", 2, True], ["upsd", 3, False], ["kron", ["upsd", 2, True], ["upsd", 2, True]], ["kron", ["upsd", 2, True], ["pdiag", 2]],
             ["blockdiag", [["upsd", 2, True], ["psd", 1, False]], [2, 1]],
             ["blockdiag", [["blockdiag", [["psd", 2, False], ["pdiag", 1]], [1, 1]], ["psd", 1, False]], [2, 1]],
             ["blockdiag", [["psd", 1, False], ["blockdiag", [["psd", 2, False], ["pdiag", 1]], [2, 1]]], [1, 2]],
             ["blockdiag", [["blockdiag", [["pdiag", 1], ["psd", 1, False]], [1, 2]]], [2]]]
    if tier == "thorough":
        chol += [["psd", 3, True], ["psd", 4, False], ["kron", ["psd", 3, False], ["psd", 2, False], ["psd", 2, False]]]
    for t in chol:
        out.append((f"chol:{pname(t)}", case_cholesky, dict(tree=t)))
    plus = [(["dense", 1, 1, F8], None), (["dense", 2, 2, F8], ["Permutation", "Triangular"]), (["dense", 2, 2, C16], None), (["dense", 3, 3, F8], None),
            (["identity", 3, F8], ["Identity"]), (["diag", 2, F8], None), (["diag", 2, C16], None), (["scalar", 2, F8], None),
            (["kron", ["dense", 2, 2, F8], ["dense", 2, 2, F8]], ["Kronecker"]), (["kron", ["dense", 2, 2, F8], ["identity", 2, F8]], ["Kronecker"]),
            (["kron", ["dense", 2, 2, F8], ["dense", 3, 3, F8]], ["Kronecker"]),
            (["blockdiag", [["dense", 2, 2, F8], ["identity", 1, F8]], [2, 1]], ["BlockDiag"]), (["blockdiag", [["dense", 2, 2, F8]], [3]], ["BlockDiag"]),
            (["blockdiag", [["blockdiag", [["dense", 2, 2, F8], ["diag", 1, F8]], [1, 1]], ["dense", 1, 1, F8]], [2, 1]], ["BlockDiag"]),
            (["blockdiag", [["dense", 1, 1, F8], ["blockdiag", [["diag", 1, F8], ["dense", 2, 2, F8]], [2, 1]]], [1, 2]], ["BlockDiag"]),
            (["tri", 3, 1, F8], None), (["tridiag", 3, F8], None), (["product", ["dense", 2, 2, F8], ["diag", 2, F8]], None),
            (["perm", [1, 2, 0], F8], None), (["sum", ["dense", 2, 2, F8], ["identity", 2, F8]], None)]
    for t, st in plus:
        heavy = tree_name(t) in ("D3x3", "kron(D2x2,D3x3)")
        out.append((f"plu:{tree_name(t)}", case_plu, dict(tree=t, structured=st), dict(max_paths=120, partial_ok=True) if heavy else {}))
    return out


BOUNDS = dict(cholesky="dense L0 L0^H n <= 3 (real), n = 2 (complex); positive Diagonal / ScalarMul; Identity; Kronecker with 2-3 factors of unequal size; "
              "BlockDiag with multiplicities; mutual nestings", plu="dense n <= 3 real, n = 2 complex (all pivot orders explored); Identity; Diagonal / "
              "ScalarMul of either sign; Kronecker (equal and unequal factor sizes); BlockDiag with multiplicities; Triangular, Tridiagonal, Product, "
              "Permutation, Sum through the dense path", values="all payloads symbolic")
BOUNDS["added"] = "the same matrices without the PSD declaration (alone and as Kronecker / BlockDiag factors), BlockDiag nested with multiplicities at both levels, and the operator's parameters after the factorisation (flatten unchanged, rebuilt from 4 * parameters factorised on its own)"

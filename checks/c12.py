"""C12 — CG returns the Krylov-optimal iterate and honours its stopping contract.

Inputs are produced from the CG coefficients themselves: A := Q T(alpha, rho) Q^T with T the CG-Lanczos matrix of step
lengths alpha_k > 0 and residual norms rho_k > 0 (T_kk = 1/alpha_k + beta_{k-1}/alpha_{k-1}, T_{k,k+1} = -sqrt(beta_k)/alpha_k,
beta_k = rho_{k+1}^2/rho_k^2), b := s q_0 — onto all SPD A and right-hand sides of full Krylov dimension.  The real
`cg` / `run_batched_cg` / `while_loop_winfo` run on it; each stopping index is a path.  The oracle is independent of CG theory:
x0 + K (K^H A K)^-1 K^H r0 with K the (preconditioned) Krylov matrix, computed by exact elimination."""
import numpy as np

import cola
from cola.linalg.inverse.cg import cg

from . import krylov as K

PROPERTY = "C12"
OPTS = {
    "quick": dict(max_paths=16, case_budget_s=200, flip_timeout_ms=10000, true_timeout_ms=15000),
    "thorough": dict(max_paths=48, case_budget_s=900, flip_timeout_ms=30000, true_timeout_ms=60000),
}
ASSUMPTIONS = [
    "inputs: all SPD / HPD A and b with full Krylov data (alpha_k, rho_k, s symbolic positive) in the listed orthonormal bases",
    "the guarded divisions (|denominator| < 1e-40) are not triggered (positive parameters)",
    "stopping contract as implemented and stated: exit as soon as every column's recursive residual is <= tol*(1 + ||r0||/||b||)*||b||",
]


def cg_matrix(T, n, alpha, rho):
    """CG-Lanczos tridiagonal matrix from step lengths and residual norms (rho[0] = 1)"""
    z = K.S(T, 0)
    rows = [[z for _ in range(n)] for _ in range(n)]
    for k in range(n):
        d = 1 / alpha[k]
        if k > 0:
            d = d + (rho[k] * rho[k]) / (rho[k - 1] * rho[k - 1]) / alpha[k - 1]
        rows[k][k] = d
        if k < n - 1:
            o = -(rho[k + 1] / rho[k]) / alpha[k]
            rows[k][k + 1] = o
            rows[k + 1][k] = o
    return rows


def krylov_optimal(T, A, r0, x0, k, M=None):
    """x0 + K (K^H A K)^-1 K^H r0, K = [M r0, (M A) M r0, ...] (k columns); vectors are 1-D mode arrays"""
    if k == 0:
        return x0
    cols = []
    v = (M @ r0) if M is not None else r0
    for _ in range(k):
        cols.append(v)
        w = A @ v
        v = (M @ w) if M is not None else w
    Kmat = np.stack([K.raw(T, c) for c in cols], axis=1)
    Kmat = K.arr(T, Kmat, A.dtype)
    KH = np.conjugate(Kmat).T
    G = KH @ A @ Kmat
    rhs = KH @ r0.reshape(-1, 1)
    y = K.exact_solve(T, G, rhs)
    return x0 + (Kmat @ y).reshape(-1)


def _norm(T, v):
    if T.sym:
        from symx.array import sym_norm
        return sym_norm(v)
    return np.linalg.norm(v)


class Counter:
    def __init__(s):
        s.n = 0


def counting(A, cnt, annotations):
    def mm(X):
        cnt.n += 1
        return A._matmat(X)

    return cola.ops.LinearOperator(A.dtype, A.shape, matmat=mm, annotations=annotations)


def case_cg(T, n, max_iters, variant=0, complex_=False, x0mode="none", tol="sym", cols="one", precond="none", via="function",
            rhs_scale=True, rhs_phase=False, real_rhs=False):
    dt = 'complex128' if complex_ else 'float64'
    if real_rhs:
        # complex Hermitian positive-definite operator (phase-diagonal basis), right-hand side s e_1 handed over with a real dtype
        from .c14 import phase_basis
        assert complex_ and cols == "one" and precond == "none" and x0mode == "none"
        Q = phase_basis(T, n, dt)
    else:
        Q = K.basis(T, n, variant, complex_, dt)
    alpha = [T.var(f"al{k}", positive=True) for k in range(n)]
    rho = [K.S(T, 1)] + [T.var(f"rho{k}", positive=True) for k in range(1, n)]
    s = T.var("s", positive=True) if rhs_scale else K.S(T, 1)
    # data within 12 orders of magnitude: keeps every intermediate quantity far above the 1e-40 division guards
    for x in alpha + rho[1:] + ([s] if rhs_scale else []):
        T.assume(x >= 1e-6)
        T.assume(x <= 1e6)
    rows = cg_matrix(T, n, alpha, rho)
    n1 = n // 2
    if cols == "blocks":
        # A = A1 (+) A2 in the basis Q: independent CG coefficients per block, one right-hand side per block
        z = K.S(T, 0)
        rho2 = [K.S(T, 1)] + [T.var(f"sig{k}", positive=True) for k in range(1, n - n1)]
        for x in rho2[1:]:
            T.assume(x >= 1e-6)
            T.assume(x <= 1e6)
        r1 = cg_matrix(T, n1, alpha[:n1], rho[:n1])
        r2 = cg_matrix(T, n - n1, alpha[n1:], rho2)
        rows = [[z for _ in range(n)] for _ in range(n)]
        for i in range(n1):
            for j in range(n1):
                rows[i][j] = r1[i][j]
        for i in range(n - n1):
            for j in range(n - n1):
                rows[n1 + i][n1 + j] = r2[i][j]
    Tm = K.mat(T, rows, dt)
    At = Q @ Tm @ np.conjugate(Q).T  # SPD in the (possibly preconditioned) coordinates
    bt = s * Q[:, 0]
    if real_rhs:
        bt = K.mat(T, [[s if i == 0 else K.S(T, 0) for i in range(n)]], 'float64')[0]
    if rhs_phase:
        # real operator, complex right-hand side (the default preconditioner and every intermediate must promote): b := s (3 + 4i)/5 q_0
        from fractions import Fraction as F_
        from .c14 import _item
        assert not complex_ and cols == "one" and precond == "none"
        bt = K.mat(T, [[_item(T, bt[i]) * K.cst(T, F_(3, 5), F_(4, 5)) for i in range(n)]], 'complex128')[0]
    Cm = None
    if precond == "none":
        A, b, P, Mprec = At, bt, None, None
    else:
        # P = C C^T; preconditioned CG on (A, b) is CG on (C^T A C, C^T b): choose A := C^-T At C^-1, b := C^-T bt
        if precond == "jacobi":
            c = [T.var(f"c{i}", positive=True) for i in range(n)]
            for x in c:
                T.assume(x >= 1e-3)
                T.assume(x <= 1e3)
            z = K.S(T, 0)
            Cm = K.mat(T, [[c[i] if i == j else z for j in range(n)] for i in range(n)], dt)
            Cinv = K.mat(T, [[1 / c[i] if i == j else z for j in range(n)] for i in range(n)], dt)
        else:
            Cm = K.mat(T, [[K.S(T, 2 if i == j else (1 if j == i + 1 else 0)) for j in range(n)] for i in range(n)], dt)
            Cinv = K.arr(T, K.raw(T, K.exact_solve(T, Cm, K.eye_like(T, n, dt))), dt)
        A = Cinv.T @ At @ Cinv
        b = Cinv.T @ bt
        Mprec = Cm @ Cm.T
        P = cola.PSD(cola.ops.Dense(Mprec))
    tolv = T.scalar("tol", 'float64', positive=True, form='py') if tol == "sym" else float(tol)
    if tol == "sym":
        T.assume(tolv < 1)
    cnt = Counter()
    Aop = counting(cola.ops.Dense(A), cnt, {cola.PSD})
    # right-hand sides
    if cols == "one":
        B = b
    else:
        s2 = T.var("s2", positive=True)
        T.assume(s2 >= 1e-6)
        T.assume(s2 <= 1e6)
        colsl = [b, (s2 / s) * b if rhs_scale else s2 * b]
        if cols == "blocks":
            colsl = [b, s2 * Q[:, n1]]
        if cols == "two+zero":
            colsl.append(0 * b)
        from .c14 import _stack_cols
        B = _stack_cols(T, colsl, dt)
    x0 = None
    if x0mode != "none":
        # b := A x0 + s q0, so that the initial residual (not b) carries the Krylov parametrisation
        from fractions import Fraction as F
        vals = [F(1, 2), F(-1, 3), F(2, 5), F(-3, 7)][:n]
        x0 = K.mat(T, [[K.cst(T, v) for v in vals]], dt)[0]
        if x0mode == "sym":
            x0 = T.var("xs") * x0
        B = A @ x0 + B
        assert cols == "one"
    kwargs = dict(x0=x0, P=P, tol=tolv, max_iters=max_iters)
    if via == "function":
        X, info = cg(Aop, B, **kwargs)
    elif via == "class":
        X, info = cola.linalg.CG(**kwargs)(Aop, B)
    else:
        Ainv = cola.linalg.inv(Aop, cola.linalg.CG(**kwargs))
        X = Ainv @ B
        info = Ainv.info
    steps = info["iterations"] - 1
    T.check("steps<=max_iters", 0 <= steps <= max_iters, f"{steps} steps, max_iters={max_iters}")
    T.check("products==steps+1", cnt.n == steps + 1, f"{cnt.n} products with A for {steps} steps")
    T.check("shape", tuple(X.shape) == tuple(B.shape), f"{X.shape} vs {B.shape}")
    k = min(steps, n)
    if cols == "blocks":
        k = min(steps, n1)  # per column below
    Bc = [B] if cols == "one" else [B[:, j] for j in range(B.shape[1])]
    Xc = [X] if cols == "one" else [X[:, j] for j in range(X.shape[1])]
    x0c = [None] * len(Bc) if x0 is None else ([x0] if cols == "one" else [x0[:, j] for j in range(x0.shape[1])])
    zero = K.zeros_like_mode(T, (n, ), dt)
    for j, (bj, xj, x0j) in enumerate(zip(Bc, Xc, x0c)):
        if cols == "two+zero" and j == 2:
            T.eq(f"col{j}:zero-rhs-gives-exact-zero", xj, zero, dtype=False)
            continue
        x0e = zero if x0j is None else x0j
        r0 = bj - A @ x0e
        if cols == "blocks":
            k = min(steps, n1 if j == 0 else n - n1)
        want = krylov_optimal(T, A, r0, x0e, k, Mprec)
        T.eq(f"col{j}:iterate==Krylov-optimal[{k}]", xj, want, dtype=False)
    if cols in ("two", "two+zero") and x0 is None:
        # linearity in b
        T.eq("col1==(s2/s)*col0", Xc[1], ((Bc[1][0] / Bc[0][0]) if True else 1) * Xc[0], dtype=False)
    # stopping contract (x0 = None, unpreconditioned: the recursive residual norm after j steps is rho_j, threshold 2*tol)
    if x0 is None and precond == "none" and tol == "sym":
        thr = 2 * tolv
        zero_ = K.S(T, 0)
        if cols == "blocks":
            seqs = [[rho[j] if j < n1 else zero_ for j in range(n + 1)], [rho2[j] if j < n - n1 else zero_ for j in range(n + 1)]]
        else:
            seqs = [[rho[j] if j < n else zero_ for j in range(n + 1)]]
        st = min(steps, n)
        if steps < max_iters:
            T.true("exit=>every-column-converged", [sq[st] <= thr for sq in seqs])
        for j in range(st):
            conds = [sq[j] > thr for sq in seqs]
            c = conds[0]
            for c2 in conds[1:]:
                c = c | c2
            T.true(f"no-early-exit[{j}]", [c])
    if x0 is None and precond == "none" and cols == "one":
        errs = info.get("errors")
        T.check("errors-length", errs is not None and len(errs) == max(steps, 0) if steps >= 1 else True, f"{None if errs is None else len(errs)} errors, {steps} steps")


def case_zero_rhs_with_guess(T, n, max_iters, cols, via):
    """a zero right-hand side (alone, or as one column of a block) together with a NON-zero initial guess: the solution of A x = 0 is exactly
    zero whatever the guess; the other column is still solved from its own guess"""
    from fractions import Fraction as F
    dt = 'float64'
    Am = K.mat(T, [[K.S(T, 2 if i == j else (-1 if abs(i - j) == 1 else 0)) for j in range(n)] for i in range(n)], dt)
    xs = T.var("xs")
    T.assume(xs * xs >= 1e-4)
    T.assume(xs * xs <= 1e4)
    g = K.mat(T, [[K.cst(T, v) for v in [F(1, 2), F(-1, 3), F(2, 5)][:n]]], dt)[0]
    zero = K.zeros_like_mode(T, (n, ), dt)
    from .c14 import _stack_cols
    if cols == 1:
        B, X0 = zero, xs * g
    else:
        s = T.var("s", positive=True)
        T.assume(s >= 1e-2)
        T.assume(s <= 1e2)
        b1 = s * K.mat(T, [[K.cst(T, v) for v in [F(1), F(2), F(-1)][:n]]], dt)[0]
        B, X0 = _stack_cols(T, [b1, zero], dt), _stack_cols(T, [xs * g, xs * g], dt)
    Aop = cola.PSD(cola.ops.Dense(Am))
    kwargs = dict(x0=X0, tol=1e-6, max_iters=max_iters)
    if via == "function":
        X, info = cg(Aop, B, **kwargs)
    else:
        X = cola.linalg.inv(Aop, cola.linalg.CG(**kwargs)) @ B
    T.check("shape", tuple(X.shape) == tuple(B.shape), f"{X.shape} vs {B.shape}")
    xz = X if cols == 1 else X[:, 1]
    T.eq("zero right-hand side, non-zero guess: exactly zero solution", xz, zero, dtype=False)


def cases(tier, seed):
    out = []
    for n, m, c, via in ((2, 1, 1, "function"), (2, 5, 1, "function"), (2, 1, 2, "function"), (2, 2, 2, "function"), (3, 2, 2, "function"), (2, 1, 1, "inv"),
                         (2, 2, 2, "inv"), (3, 3, 1, "function")):
        out.append((f"zero-rhs-guess:n{n}m{m}c{c}:{via}", case_zero_rhs_with_guess, dict(n=n, max_iters=m, cols=c, via=via), dict(partial_ok=True)))
    sizes = (2, 3) if tier == "quick" else (2, 3, 4)
    for n in sizes:
        for m in range(0, 2 * n + 1):
            if tier == "quick" and m > n + 2:
                continue
            out.append((f"plain:n{n}m{m}", case_cg, dict(n=n, max_iters=m)))
        out.append((f"basis1:n{n}", case_cg, dict(n=n, max_iters=n, variant=1)))
        out.append((f"fixedtol:n{n}", case_cg, dict(n=n, max_iters=2 * n, tol=1e-6)))
        out.append((f"x0:n{n}m0", case_cg, dict(n=n, max_iters=0, x0mode="sym", tol=1e-6), dict(partial_ok=True, flip_timeout_ms=1500)))
        for m in (1, n):
            out.append((f"x0:n{n}m{m}", case_cg, dict(n=n, max_iters=m, x0mode="concrete", tol=1e-6), dict(partial_ok=True, flip_timeout_ms=1500)))
            out.append((f"two:n{n}m{m}", case_cg, dict(n=n, max_iters=m, cols="two", tol=1e-6)))
            out.append((f"two+zero:n{n}m{m}", case_cg, dict(n=n, max_iters=m, cols="two+zero", tol=1e-6)))
            out.append((f"class:n{n}m{m}", case_cg, dict(n=n, max_iters=m, via="class", tol=1e-6)))
            out.append((f"inv:n{n}m{m}", case_cg, dict(n=n, max_iters=m, via="inv", tol=1e-6)))
            out.append((f"inv-two:n{n}m{m}", case_cg, dict(n=n, max_iters=m, via="inv", cols="two", tol=1e-6)))
            out.append((f"inv-x0:n{n}m{m}", case_cg, dict(n=n, max_iters=m, via="inv", x0mode="concrete", tol=1e-6), dict(partial_ok=True, flip_timeout_ms=1500)))
            out.append((f"precond-concrete:n{n}m{m}", case_cg, dict(n=n, max_iters=m, precond="concrete", tol=1e-9)))
        out.append((f"precond-jacobi:n{n}m1", case_cg, dict(n=n, max_iters=1, precond="jacobi", tol=1e-9)))
        out.append((f"two-symtol:n{n}", case_cg, dict(n=n, max_iters=n, cols="two")))
        if n >= 3:
            out.append((f"blocks-symtol:n{n}", case_cg, dict(n=n, max_iters=n, cols="blocks")))
            out.append((f"blocks:n{n}m1", case_cg, dict(n=n, max_iters=1, cols="blocks", tol=1e-6)))
    for n, m in ((2, 1), (2, 2), (3, 3)):
        out.append((f"complex-A-real-b:n{n}m{m}", case_cg, dict(n=n, max_iters=m, tol=1e-6, complex_=True, real_rhs=True)))
        out.append((f"complex-A-real-b-inv:n{n}m{m}", case_cg, dict(n=n, max_iters=m, tol=1e-6, complex_=True, real_rhs=True, via="inv")))
    for n, m in ((2, 1), (2, 2), (3, 3)):
        out.append((f"real-A-complex-b:n{n}m{m}", case_cg, dict(n=n, max_iters=m, tol=1e-6, rhs_phase=True)))
        out.append((f"real-A-complex-b-inv:n{n}m{m}", case_cg, dict(n=n, max_iters=m, tol=1e-6, rhs_phase=True, via="inv")))
    out.append(("precond-jacobi:n2m2", case_cg, dict(n=2, max_iters=2, precond="jacobi", tol=1e-9)))
    for n in (2, 3):
        for m in (1, n):
            out.append((f"complex:n{n}m{m}", case_cg, dict(n=n, max_iters=m, complex_=True, tol=1e-6)))
    out.append(("blocks-symtol:n4m3", case_cg, dict(n=4, max_iters=3, cols="blocks"), dict(partial_ok=True)))
    if tier == "quick":
        out.append(("plain:n4m4", case_cg, dict(n=4, max_iters=4, tol=1e-6)))
        out.append(("plain:n4m2", case_cg, dict(n=4, max_iters=2, tol=1e-6)))
    return out


BOUNDS = dict(
    quick="n in {2,3} (n = 4 with fixed tol), max_iters 0..n+2, 2 rational orthogonal bases, complex Hermitian n in {2,3}, symbolic x0 "
    "(unit and scaled rhs), two / two+zero right-hand-side columns with unrelated scales, concrete SPD and symbolic Jacobi preconditioners, cg() / CG() / "
    "inv(A, CG()) entry points", thorough="n = 4 with symbolic tol, max_iters 0..2n",
    values="alpha_k, rho_k, s, s2, x0, Jacobi scales, 0 < tol < 1 symbolic; each stopping index is a path, coverage checked by z3")
BOUNDS["added"] = 'a zero right-hand side (alone or as one column) together with a non-zero initial guess'

"""C05 — reported structural annotations are true of the represented matrix.

Operator trees whose leaves carry *true* declarations (PSD: B^H B, SelfAdjoint: X + X^H, Unitary: a symbolic plane rotation or a
permutation, Stiefel: a column of a rotation) are combined with every combinator; for every annotation the resulting operator
reports, the corresponding matrix property is an obligation on the reference matrix: SelfAdjoint M == M^H; Unitary M^H M == I and
M M^H == I; Stiefel M^H M == I; PSD M == M^H and positive semi-definiteness, proved through a certificate M == C^H C assembled
along the tree (stack for sums, Kronecker for Kronecker, ...) or, when no certificate exists, by asking z3 for a vector with
x^H M x < 0.  Outputs of lanczos / arnoldi / eig / svd are checked the same way; declaring must not alter the operand."""
import numpy as np

import cola
from cola import ops

from . import krylov as K
from .c01 import C16, F8
from .common import Ref, expected, ref_add, ref_blockdiag, ref_eye, ref_H, ref_index, ref_kron, ref_matmul, ref_scale, ref_T, rfrom, rzeros, slice_indices

PROPERTY = "C05"
OPTS = {
    "quick": dict(max_paths=8, case_budget_s=150, true_timeout_ms=8000, zdag=False),
    "thorough": dict(max_paths=16, case_budget_s=600, true_timeout_ms=30000),
}
ASSUMPTIONS = ["leaf declarations are true by construction (parametrised): PSD = B^H B, SelfAdjoint = X + X^H, Unitary = symbolic plane rotation / "
               "permutation, Stiefel = first column of a rotation",
               "positive semi-definiteness is established by an explicit Gram certificate M == C^H C (identity decided exactly); without a certificate "
               "z3 must refute x^H M x < 0 (n <= 3) and an unknown is reported as inconclusive"]


def build5(T, tree, pfx="L"):
    """-> (operator, Ref M, certificate Ref C with M == C^H C or None)"""
    k = tree[0]
    if k == "dense":
        _, m, n, dt = tree
        A = T.arr(pfx, (m, n), dt)
        return ops.Dense(A), Ref(rfrom(T, A), dt), None
    if k == "psd":
        _, n, dt = tree
        B = T.arr(pfx, (n, n), dt)
        P = B.conj().T @ B
        return cola.PSD(ops.Dense(P)), Ref(rfrom(T, P), dt), Ref(rfrom(T, B), dt)
    if k == "psd-generic":
        # PSD-declared operator without a Dense payload (no Dense-specific rules fire)
        A, R, Cc = build5(T, ["psd", tree[1], tree[2]], pfx)
        return cola.PSD(cola.no_dispatch(A)), R, Cc
    if k == "selfadj":
        _, n, dt = tree
        X = T.arr(pfx, (n, n), dt)
        Hm = X + X.conj().T
        return cola.SelfAdjoint(ops.Dense(Hm)), Ref(rfrom(T, Hm), dt), None
    if k == "pdiag":
        _, n = tree
        d = T.arr(pfx + "d", (n, ), 'float64', positive=True)
        R = rzeros(T, n, n)
        Cm = rzeros(T, n, n)
        dr = rfrom(T, d.reshape(n, 1))
        for i in range(n):
            R[i, i] = dr[i, 0]
            Cm[i, i] = K.raw(T, np.sqrt(d))[i] if T.sym else np.sqrt(dr[i, 0])
        return cola.PSD(ops.Diagonal(d)), Ref(R, 'float64'), Ref(Cm, 'float64')
    if k == "rot":
        Q = K.cayley2_symbolic(T, pfx + "t", flip=bool(tree[1]))
        return cola.Unitary(ops.Dense(Q)), Ref(rfrom(T, Q), 'float64'), None
    if k == "stiefel":
        Q = K.cayley2_symbolic(T, pfx + "t", flip=False)
        col = Q[:, :1]
        return cola.Stiefel(ops.Dense(col)), Ref(rfrom(T, col), 'float64'), None
    if k == "perm":
        p = tree[1]
        n = len(p)
        R = rzeros(T, n, n)
        for i in range(n):
            R[i, p[i]] = 1 * _one(T)
        return ops.Permutation(np.array(p, dtype=np.int64), np.dtype('float64')), Ref(R, 'float64'), None
    if k == "identity":
        n = tree[1]
        return ops.Identity((n, n), np.dtype('float64')), ref_eye(T, n, 'float64'), ref_eye(T, n, 'float64')
    if k == "scale":
        # c * A with a symbolic scalar: sign in {'pos', 'free', 'complex'}
        _, sign, sub = tree
        A, R, Cc = build5(T, sub, pfx + "s")
        if sign == "complex":
            c = T.scalar(pfx + "c", 'complex128', form='0d')
        else:
            c = T.scalar(pfx + "c", 'float64', positive=(sign == "pos"), form='0d')
        ce = rfrom(T, c.reshape(1, 1))[0, 0]
        cert = None
        if Cc is not None and sign == "pos":
            rt = np.sqrt(c)
            cert = ref_scale(T, rfrom(T, rt.reshape(1, 1))[0, 0], Cc)
        return c * A, ref_scale(T, ce, R, np.promote_types(R.dt, c.dtype)), cert
    if k in ("sum", "kron", "product"):
        subs = [build5(T, t, f"{pfx}{i}") for i, t in enumerate(tree[1:])]
        As, Rs, Cs = zip(*subs)
        if k == "sum":
            R = Rs[0]
            for r in Rs[1:]:
                R = ref_add(T, R, r)
            cert = None
            if all(c is not None for c in Cs):
                rows = sum(c.shape[0] for c in Cs)
                a = rzeros(T, rows, Cs[0].shape[1])
                r0 = 0
                for c in Cs:
                    a[r0:r0 + c.shape[0], :] = c.a
                    r0 += c.shape[0]
                cert = Ref(a, R.dt)
            op = As[0]
            for a_ in As[1:]:
                op = op + a_
            return op, R, cert
        if k == "kron":
            R = Rs[0]
            for r in Rs[1:]:
                R = ref_kron(T, R, r)
            cert = None
            if all(c is not None for c in Cs):
                cert = Cs[0]
                for c in Cs[1:]:
                    cert = ref_kron(T, cert, c)
            return ops.Kronecker(*As), R, cert
        R = Rs[0]
        for r in Rs[1:]:
            R = ref_matmul(T, R, r)
        op = As[0]
        for a_ in As[1:]:
            op = op @ a_
        return op, R, None
    if k == "blockdiag":
        subs = [build5(T, t, f"{pfx}{i}") for i, t in enumerate(tree[1])]
        blocks, certs = [], []
        for (A, R, Cc), m in zip(subs, tree[2]):
            blocks += [R] * m
            certs += [Cc] * m
        cert = ref_blockdiag(T, certs) if all(c is not None for c in certs) else None
        return ops.BlockDiag(*[s[0] for s in subs], multiplicities=list(tree[2])), ref_blockdiag(T, blocks), cert
    if k == "gram":
        # w1(A) @ w2(A) on the SAME object: ["gram", w1, w2, sub]
        _, w1, w2, sub = tree
        A, R, _ = build5(T, sub, pfx + "g")
        W = {"I": (A, R), "T": (A.T, ref_T(T, R)), "H": (A.H, ref_H(T, R))}
        (A1, R1), (A2, R2) = W[w1], W[w2]
        cert = R if (w1, w2) == ("H", "I") else (ref_H(T, R) if (w1, w2) == ("I", "H") else None)
        if (w1, w2) == ("T", "I") and R.dt.kind != 'c':
            cert = R
        if (w1, w2) == ("I", "T") and R.dt.kind != 'c':
            cert = ref_T(T, R)
        return A1 @ A2, ref_matmul(T, R1, R2), cert
    if k == "sandwich":
        # w1(A) @ mid @ ... @ w2(A): the SAME object at both ends, arbitrary (non-PSD) factors in between  ["sandwich", w1, w2, sub, mid, ...]
        _, w1, w2, sub = tree[:4]
        A, R, _ = build5(T, sub, pfx + "g")
        W = {"I": (A, R), "T": (A.T, ref_T(T, R)), "H": (A.H, ref_H(T, R))}
        (A1, R1), (A2, R2) = W[w1], W[w2]
        op, Rm = A1, R1
        for i, mt in enumerate(tree[4:]):
            Mo, MR, _ = build5(T, mt, f"{pfx}m{i}")
            op, Rm = op @ Mo, ref_matmul(T, Rm, MR)
        return op @ A2, ref_matmul(T, Rm, R2), None
    if k == "selfslice":
        # a product of an operator with a slice / row or column selection of the SAME object (a view that keeps its operand in an attribute,
        # like the transposing wrappers do, but is not a transpose): ["selfslice", side, sub, s0, s1]
        _, side, sub, s0, s1 = tree
        A, R, _ = build5(T, sub, pfx + "v")
        i0, rows = slice_indices(s0, A.shape[0])
        i1, cols = slice_indices(s1, A.shape[1])
        S, RS = A[i0, i1], ref_index(T, R, rows, cols)
        if side == "L":
            return S @ A, ref_matmul(T, RS, R), None
        return A @ S, ref_matmul(T, R, RS), None
    if k == "gram2":
        # A.H @ B with two *different* objects of the same shape (must not be reported PSD)
        A, RA, _ = build5(T, tree[1], pfx + "a")
        B, RB, _ = build5(T, tree[1], pfx + "b")
        return A.H @ B, ref_matmul(T, ref_H(T, RA), RB), None
    if k == "sliced":
        _, sub, s0, s1 = tree
        A, R, Cc = build5(T, sub, pfx + "s")
        i0, rows = slice_indices(s0, A.shape[0])
        i1, cols = slice_indices(s1, A.shape[1])
        cert = None
        if Cc is not None and rows == cols:
            cert = ref_index(T, Cc, list(range(Cc.shape[0])), cols)
        return A[i0, i1], ref_index(T, R, rows, cols), cert
    if k in ("T", "H", "transpose", "adjoint"):
        A, R, Cc = build5(T, tree[1], pfx + "t")
        if k == "T":
            return A.T, ref_T(T, R), (Ref(np.conjugate(Cc.a) if not T.sym else _conj(Cc.a), Cc.dt) if Cc is not None else None)
        if k == "H":
            return A.H, ref_H(T, R), Cc
        if k == "transpose":
            return ops.Transpose(A), ref_T(T, R), (Ref(_conj(Cc.a), Cc.dt) if Cc is not None else None)
        return ops.Adjoint(A), ref_H(T, R), Cc
    raise ValueError(k)


def _conj(a):
    out = np.empty(a.shape, dtype=a.dtype)
    for idx in np.ndindex(*a.shape):
        out[idx] = a[idx].conjugate()
    return out


def _one(T):
    from .common import r_one
    return r_one(T)


def name5(t):
    k = t[0]
    if k == "dense":
        return f"D{t[1]}x{t[2]}{'c' if 'complex' in t[3] else ''}"
    if k in ("psd", "selfadj", "psd-generic"):
        return f"{k}{t[1]}{'c' if 'complex' in t[2] else ''}"
    if k in ("pdiag", "identity"):
        return f"{k}{t[1]}"
    if k == "rot":
        return f"rot{t[1]}"
    if k == "stiefel":
        return "stiefel"
    if k == "perm":
        return "perm" + "".join(map(str, t[1]))
    if k == "scale":
        return f"{t[1]}*{name5(t[2])}"
    if k in ("sum", "kron", "product"):
        return f"{k}(" + ",".join(name5(x) for x in t[1:]) + ")"
    if k == "blockdiag":
        return "bd(" + ",".join(f"{name5(x)}^{m}" for x, m in zip(t[1], t[2])) + ")"
    if k == "gram":
        return f"gram{t[1]}{t[2]}({name5(t[3])})"
    if k == "sandwich":
        return f"sandwich{t[1]}{t[2]}({name5(t[3])};" + ",".join(name5(x) for x in t[4:]) + ")"
    if k == "gram2":
        return f"A.H@B({name5(t[1])})"
    if k == "selfslice":
        from .common import _sln
        return f"selfslice{t[1]}({name5(t[2])})[{_sln(t[3])},{_sln(t[4])}]"
    if k == "sliced":
        from .common import _sln
        return f"sl({name5(t[1])})[{_sln(t[2])},{_sln(t[3])}]"
    return f"{k}({name5(t[1])})"


def check_annotations(T, tag, A, R, cert=None):
    anns = {a.__name__ for a in A.annotations}
    M = expected(T, R)
    MH = expected(T, ref_H(T, R))
    m, n = R.shape
    T.note({"case": tag, "reported": sorted(anns)})
    if "SelfAdjoint" in anns or "PSD" in anns:
        T.check(f"{tag}:self-adjoint=>square", m == n)
        if m == n:
            T.eq(f"{tag}:SelfAdjoint => M == M^H", M, MH, dtype=False)
    if "Stiefel" in anns or "Unitary" in anns:
        T.eq(f"{tag}:Stiefel => M^H M == I", MH @ M, expected(T, ref_eye(T, n, R.dt)), dtype=False)
    if "Unitary" in anns:
        T.check(f"{tag}:Unitary => square", m == n, f"{m}x{n} operator reports Unitary")
        if m == n:
            T.eq(f"{tag}:Unitary => M M^H == I", M @ MH, expected(T, ref_eye(T, m, R.dt)), dtype=False)
    if "PSD" in anns and m == n:
        if cert is not None:
            Cm = expected(T, cert)
            T.eq(f"{tag}:PSD certificate M == C^H C", M, expected(T, ref_H(T, cert)) @ Cm, dtype=False)
        elif T.sym:
            # no certificate: ask the solver for x with x^H M x < 0 (real x suffices for real symmetric M; complex x = u + i v)
            from symx.core import C
            xr = [T.var(f"{tag}_xr{i}") for i in range(n)]
            xi = [T.var(f"{tag}_xi{i}") for i in range(n)] if R.dt.kind == 'c' else [C(0)] * n
            from symx.core import Sym
            x = [Sym(a.re, b.re) for a, b in zip(xr, xi)]
            q = C(0)
            Mr = R.a
            for i in range(n):
                for j in range(n):
                    q = q + x[i].conjugate() * C(Mr[i, j]) * x[j]
            T.true(f"{tag}:PSD => x^H M x >= 0", [q.real >= 0])
        else:
            w = np.linalg.eigvalsh((np.asarray(M) + np.asarray(M).conj().T) / 2)
            T.true(f"{tag}:PSD => x^H M x >= 0", [w.min() >= -1e-9 * max(1.0, abs(w).max())])


def case_tree(T, tree):
    A, R, cert = build5(T, tree)
    check_annotations(T, "op", A, R, cert)
    # declaring does not alter the operand and yields the same action
    before = set(A.annotations)
    ANN = (cola.PSD, cola.SelfAdjoint, cola.Unitary, cola.Stiefel)
    isa_before = {a.__name__: bool(A.isa(a)) for a in ANN}  # the operand has been queried before any declaration is made
    for ann in ANN:
        B = ann(A)
        T.check(f"declare {ann.__name__}: operand annotations unchanged", set(A.annotations) == before)
        T.check(f"declare {ann.__name__}: new object with the annotation", B is not A and B.isa(ann))
        T.check(f"declare {ann.__name__}: operand answers isa() as before (copy queried first)", {a.__name__: bool(A.isa(a)) for a in ANN} == isa_before,
                f"before {isa_before}, after {({a.__name__: bool(A.isa(a)) for a in ANN})}")
        B2 = ann(A)
        A.isa(ann)  # the operand is queried first this time
        T.check(f"declare {ann.__name__}: the copy reports the declaration (operand queried first)", bool(B2.isa(ann)))
        T.check(f"declare {ann.__name__}: operand answers isa() as before (operand queried first)", {a.__name__: bool(A.isa(a)) for a in ANN} == isa_before)
    if R.shape[0] == R.shape[1] or True:
        B = cola.SelfAdjoint(A) if R.shape[0] == R.shape[1] else cola.Stiefel(A)
        T.eq("declare: same dense form", B.to_dense(), expected(T, R), dtype=False)
    if R.shape[0] == R.shape[1] and A.isa(cola.SelfAdjoint):
        # the annotation steers the generic left product (x A = (A x^H)^H for Hermitian A): same action as the matrix, complex operands included
        from .common import ref_matmul, rfrom
        Y = T.arr("Yl", (2, R.shape[0]), 'complex128')
        T.eq("annotated operator: left action Y @ A", Y @ A, expected(T, ref_matmul(T, Ref(rfrom(T, Y), 'complex128'), R)), dtype=False)


def case_routines(T, which, n, m, zero_at=None):
    """annotations attached by library routines to their own outputs"""
    from cola.linalg.decompositions.arnoldi import arnoldi
    from cola.linalg.decompositions.lanczos import lanczos
    dt = 'float64'
    if which == "lanczos":
        from .c14 import _setup
        # zero_at: the Krylov space is exhausted after zero_at + 1 steps although max_iters >= n (identity basis: exact in floats too)
        _, Q, al, be, s, Tm, A, v = _setup(T, n, 0 if zero_at is None else -1, False, zero_at)
        if zero_at is None:
            Qc, Tc, info = lanczos(cola.SelfAdjoint(ops.Dense(A)), v, max_iters=m, tol=1e-9)
        else:
            Qc, Tc, info = cola.linalg.Lanczos(start_vector=v, max_iters=m, tol=1e-9)(cola.SelfAdjoint(ops.Dense(A)))
            T.check("lanczos: stopped early", Qc.shape[1] == zero_at + 1, f"{Qc.shape}")
        for j in range(n - 1):
            if j != zero_at:
                T.assume(be[j] > 1e-9 * be[0])
        Qd = Qc.to_dense()
        check_annotations(T, "lanczos.Q", Qc, Ref(K.raw(T, Qd), dt))
        Td = Tc.to_dense()
        check_annotations(T, "lanczos.T", Tc, Ref(K.raw(T, Td), dt))
    elif which in ("arnoldi", "arnoldi-complex"):
        from .c15 import _setup
        dt, Q, Hm, s, A, v = _setup(T, n, 0, which == "arnoldi-complex")
        for j in range(n - 1):
            T.assume(Hm[j + 1, j].real >= 1e-3)
            T.assume(Hm[j + 1, j].real > 1e-9 * Hm[1, 0].real)
        Qc, Hc, info = arnoldi(ops.Dense(A), v, max_iters=m, tol=1e-9)
        check_annotations(T, "arnoldi.Q", Qc, Ref(K.raw(T, Qc.to_dense()), dt))
    elif which in ("eig-diag", "eig-identity", "eig-tri-lower", "eig-tri-upper"):
        import importlib
        eigs = importlib.import_module("cola.linalg.eig.eigs")
        if which == "eig-diag":
            d = T.arr("d", (n, ), dt)
            A = ops.Diagonal(d)
        elif which == "eig-identity":
            A = ops.Identity((n, n), np.dtype(dt))
        else:
            X = T.arr("L", (n, n), dt).copy()
            lower = which.endswith("lower")
            for i in range(n):
                for j in range(n):
                    if (j > i) if lower else (j < i):
                        X[i, j] = 0.
            A = ops.Triangular(X, lower=lower)
        vals, vecs = eigs.eig(A, m, "LM", cola.linalg.Auto()) if which != "eig-tri-lower" or True else None
        check_annotations(T, f"{which}.V", vecs, Ref(K.raw(T, vecs.to_dense()), dt))
    elif which == "eigh":
        import importlib
        eigs = importlib.import_module("cola.linalg.eig.eigs")
        from cola.linalg.unary.unary import Eigh
        V = K.cayley2_symbolic(T, "v")
        w0, gap = T.var("w0"), T.var("gap", positive=True)
        z = K.S(T, 0)
        A = V @ K.mat(T, [[w0, z], [z, w0 + gap]], dt) @ V.T
        if T.sym:
            from symx import lapack
            lapack.register("eigh", K.raw(T, A), (K.raw(T, K.mat(T, [[w0, w0 + gap]], dt))[0], K.raw(T, V)))
        vals, vecs = eigs.eig(cola.SelfAdjoint(ops.Dense(A)), m, "LM", Eigh())
        check_annotations(T, "eigh.V", vecs, Ref(K.raw(T, vecs.to_dense()), dt))


def cases(tier, seed):
    out = []
    P2, P2c, S2c, S2 = ["psd", 2, F8], ["psd", 2, C16], ["selfadj", 2, C16], ["selfadj", 2, F8]
    G = ["psd-generic", 2, C16]
    trees = [P2, P2c, S2, S2c, G, ["pdiag", 2], ["rot", 0], ["rot", 1], ["stiefel"], ["perm", [1, 2, 0]], ["identity", 2], ["dense", 2, 2, F8],
             ["scale", "pos", P2], ["scale", "free", P2], ["scale", "complex", P2c], ["scale", "free", S2], ["scale", "complex", S2c], ["scale", "free", ["rot", 0]],
             ["scale", "pos", ["rot", 0]], ["scale", "free", ["stiefel"]], ["scale", "pos", ["pdiag", 2]], ["scale", "free", ["identity", 2]],
             ["sum", P2, P2], ["sum", P2c, ["pdiag", 2]], ["sum", P2, S2], ["sum", S2c, S2c], ["sum", ["rot", 0], ["rot", 0]], ["sum", P2, ["identity", 2]],
             ["sum", ["scale", "free", P2], P2], ["sum", P2, P2, ["pdiag", 2]],
             ["kron", P2, P2], ["kron", P2c, ["pdiag", 2]], ["kron", P2, S2], ["kron", S2c, S2c], ["kron", ["rot", 0], ["rot", 1]], ["kron", ["rot", 0], ["perm", [1, 0]]],
             ["kron", ["stiefel"], ["rot", 0]], ["kron", ["stiefel"], ["stiefel"]], ["kron", P2, ["rot", 0]], ["kron", ["identity", 2], P2],
             ["blockdiag", [P2, ["pdiag", 1]], [2, 1]], ["blockdiag", [P2c, S2c], [1, 1]], ["blockdiag", [["rot", 0], ["perm", [1, 0]]], [1, 2]],
             ["blockdiag", [["stiefel"], ["stiefel"]], [1, 1]], ["blockdiag", [S2, S2], [2, 1]],
             ["product", P2, P2], ["product", ["rot", 0], ["rot", 1]], ["product", ["rot", 0], ["stiefel"]], ["product", ["stiefel"], ["rot", 0]] if False else ["product", ["rot", 0], P2],
             ["product", S2, S2], ["product", ["perm", [1, 0]], ["rot", 0]], ["product", P2, ["identity", 2]],
             ["gram", "H", "I", ["dense", 3, 2, C16]], ["gram", "I", "H", ["dense", 2, 3, C16]], ["gram", "T", "I", ["dense", 3, 2, F8]], ["gram", "T", "I", ["dense", 3, 2, C16]],
             ["gram", "I", "T", ["dense", 2, 3, C16]], ["gram", "T", "T", ["dense", 2, 2, F8]], ["gram", "H", "H", ["dense", 2, 2, C16]], ["gram", "T", "H", ["dense", 2, 2, C16]],
             ["gram", "H", "I", ["sum", ["dense", 2, 2, C16], ["dense", 2, 2, C16]]], ["gram", "H", "I", ["rot", 0]], ["gram", "H", "I", ["stiefel"]],
             ["gram2", ["sum", ["dense", 2, 2, C16], ["dense", 2, 2, C16]]], ["gram2", ["dense", 2, 2, F8]],
             # three and more factors with the same object at both ends: A^H B A is not PSD for an arbitrary B
             ["sandwich", "H", "I", ["sum", ["dense", 2, 2, C16], ["dense", 2, 2, C16]], ["dense", 2, 2, C16]],
             ["sandwich", "T", "I", ["sum", ["dense", 2, 2, F8], ["dense", 2, 2, F8]], ["dense", 2, 2, F8]],
             ["sandwich", "I", "T", ["sum", ["dense", 2, 2, F8], ["dense", 2, 2, F8]], ["dense", 2, 2, F8], ["dense", 2, 2, F8]],
             ["sandwich", "I", "H", ["sum", ["dense", 2, 3, C16], ["dense", 2, 3, C16]], ["dense", 3, 3, C16]],
             # lazily transposed complex operands (the transpose of a Sum / Diagonal / Tridiagonal stays a Transpose object)
             ["gram", "T", "I", ["sum", ["dense", 2, 2, C16], ["dense", 2, 2, C16]]], ["gram", "I", "T", ["sum", ["dense", 2, 2, C16], ["dense", 2, 2, C16]]],
             ["gram", "T", "I", ["sum", ["dense", 3, 2, C16], ["dense", 3, 2, F8]]], ["gram", "T", "I", ["sum", ["dense", 2, 2, F8], ["dense", 2, 2, F8]]],
             ["product", ["gram", "H", "I", ["sum", ["dense", 2, 2, C16], ["dense", 2, 2, C16]]], ["dense", 2, 2, C16]],
             ["product", ["gram", "T", "I", ["sum", ["dense", 2, 2, F8], ["dense", 2, 2, F8]]], ["dense", 2, 2, F8]],
             ["product", ["gram", "H", "I", ["sum", ["dense", 2, 2, C16], ["dense", 2, 2, C16]]], ["gram", "H", "I", ["sum", ["dense", 2, 2, C16], ["dense", 2, 2, C16]]]],
             ["product", ["dense", 2, 2, F8], ["gram", "I", "T", ["sum", ["dense", 2, 2, F8], ["dense", 2, 2, F8]]]],
             ["sliced", ["psd", 3, F8], ["s", 0, 2, None], ["s", 0, 2, None]], ["sliced", ["psd", 3, C16], ["s", 1, None, None], ["s", 1, None, None]],
             ["sliced", ["psd", 3, F8], ["s", 0, 2, None], ["s", 1, 3, None]], ["sliced", ["selfadj", 3, C16], ["s", None, None, 2], ["s", None, None, 2]],
             ["sliced", ["selfadj", 3, C16], ["s", 0, 2, None], ["s", 1, 3, None]], ["sliced", ["psd", 3, F8], ["i", [2, 0]], ["i", [2, 0]]],
             ["sliced", ["psd", 3, F8], ["i", [2, 0]], ["i", [0, 2]]], ["sliced", ["rot", 0], ["s", 0, 1, None], ["s", 0, 1, None]],
             # index arrays that agree in some positions only / differ in length / are equal up to sign conventions
             ["sliced", ["psd", 3, F8], ["i", [2, 0]], ["i", [2, 1]]], ["sliced", ["selfadj", 3, C16], ["i", [0, 1]], ["i", [2, 1]]],
             ["sliced", ["psd", 3, F8], ["i", [0, 1, 2]], ["i", [0, 2, 1]]], ["sliced", ["selfadj", 3, F8], ["i", [1]], ["i", [1, 2]]],
             ["sliced", ["psd", 3, C16], ["i", [0, 2]], ["i", [0, -1]]], ["sliced", ["psd", 3, F8], ["s", 0, 2, None], ["i", [0, 1]]],
             ["sliced", ["kron", ["rot", 0], ["rot", 0]], ["s", 0, 2, None], ["s", 0, 2, None]],
             # off-diagonal blocks whose two slices coincide only after clipping against the wrong extent (negative start vs zero start; both
             # starts beyond the block size) and blocks of annotated composites
             ["sliced", ["psd", 3, F8], ["s", -2, None, None], ["s", None, 2, None]], ["sliced", ["selfadj", 3, C16], ["s", None, 2, None], ["s", -2, None, None]],
             ["sliced", ["psd", 3, F8], ["s", -2, None, None], ["s", 0, 2, None]], ["sliced", ["psd", 3, F8], ["s", -2, None, None], ["s", -2, None, None]],
             ["sliced", ["kron", P2, ["psd", 3, F8]], ["s", 2, 4, None], ["s", 4, 6, None]], ["sliced", ["kron", S2, ["selfadj", 2, F8]], ["s", 1, 2, None], ["s", 2, 3, None]],
             ["sliced", ["blockdiag", [P2, S2], [1, 1]], ["s", -2, None, None], ["s", None, 2, None]],
             # products of an operator with a slice / reordering of itself (views that are not transposes)
             ["selfslice", "L", ["sum", ["dense", 2, 2, F8], ["dense", 2, 2, F8]], ["s", None, None, -1], ["s", None, None, None]],
             ["selfslice", "L", ["dense", 3, 3, F8], ["i", [2, 0, 1]], ["s", None, None, None]],
             ["selfslice", "R", ["sum", ["dense", 2, 2, C16], ["dense", 2, 2, C16]], ["s", None, None, None], ["i", [1, 0]]],
             ["selfslice", "L", ["dense", 3, 2, F8], ["i", [0, 1]], ["s", None, None, None]] if False else ["selfslice", "L", ["dense", 2, 2, F8], ["i", [1, 1]], ["s", None, None, None]],
             ["selfslice", "R", ["tridiag" if False else "dense", 2, 2, C16], ["s", None, None, None], ["s", None, None, -1]],
             ["T", P2c], ["H", P2c], ["T", S2c], ["T", ["psd-generic", 2, C16]], ["H", ["psd-generic", 2, C16]], ["transpose", G], ["adjoint", G],
             ["T", ["stiefel"]], ["H", ["stiefel"]], ["transpose", ["stiefel"]], ["adjoint", ["stiefel"]], ["T", ["rot", 0]], ["transpose", ["kron", ["rot", 0], ["rot", 1]]],
             ["transpose", ["sum", P2c, P2c]], ["adjoint", ["kron", P2c, P2c]],
             ["sum", ["kron", P2, P2], ["blockdiag", [P2], [2]]], ["kron", ["sum", P2, ["pdiag", 2]], ["blockdiag", [["pdiag", 1]], [2]]]]
    if tier == "thorough":
        # every ordered pair of the true-declared leaves under every binary combinator, and under a scalar multiple / transposing wrapper
        L = [P2, P2c, S2, S2c, G, ["pdiag", 2], ["rot", 0], ["rot", 1], ["perm", [1, 0]], ["identity", 2], ["dense", 2, 2, F8], ["dense", 2, 2, C16],
             ["psd", 3, F8], ["selfadj", 3, C16]]
        for a in L:
            for b in L:
                same = name5(a)[-1].isdigit() and name5(b)[-1].isdigit()
                na, nb = (3 if "3" in name5(a) else 2), (3 if "3" in name5(b) else 2)
                trees += [["kron", a, b], ["blockdiag", [a, b], [2, 1]]]
                if na == nb:
                    trees += [["sum", a, b], ["sum", a, ["scale", "free", b]]]
                    if "identity" not in (a[0], b[0]):  # a product with an Identity is the other factor (PSD without an assembled certificate)
                        trees += [["product", a, b], ["product", ["T", a], b]]
            for w in ("T", "H", "transpose", "adjoint"):
                trees.append([w, ["kron", a, a]])
                trees.append([w, ["scale", "pos", a]])
    seen = set()
    for t in trees:
        nm = name5(t)
        if nm in seen:
            continue
        seen.add(nm)
        out.append((f"t:{nm}", case_tree, dict(tree=t)))
    for n, m in ((3, 3), (3, 2), (4, 2), (2, 2)):
        out.append((f"r:lanczos:n{n}m{m}", case_routines, dict(which="lanczos", n=n, m=m), dict(partial_ok=True)))
    for n, m, z in ((3, 3, 1), (3, 5, 1), (4, 4, 2), (4, 1000, 1)):
        out.append((f"r:lanczos-exhausted:n{n}m{m}z{z}", case_routines, dict(which="lanczos", n=n, m=m, zero_at=z), dict(partial_ok=True)))
    for n, m in ((3, 2), (3, 3), (2, 1)):
        out.append((f"r:arnoldi:n{n}m{m}", case_routines, dict(which="arnoldi", n=n, m=m), dict(partial_ok=True)))
    out.append(("r:arnoldi-complex:n3m2", case_routines, dict(which="arnoldi-complex", n=3, m=2), dict(partial_ok=True)))
    out.append(("r:arnoldi-complex:n2m1", case_routines, dict(which="arnoldi-complex", n=2, m=1), dict(partial_ok=True)))
    for w in ("eig-diag", "eig-identity", "eig-tri-lower", "eig-tri-upper"):
        for n, m in ((3, 3), (3, 2), (2, 1)):
            out.append((f"r:{w}:n{n}k{m}", case_routines, dict(which=w, n=n, m=m), dict(partial_ok=True, abs_gen=True)))
    for m in (1, 2):
        out.append((f"r:eigh:k{m}", case_routines, dict(which="eigh", n=2, m=m), dict(partial_ok=True)))
    return out


BOUNDS = dict(trees="12 leaves with true declarations (PSD, SelfAdjoint, Unitary, Stiefel, none; real and complex; Dense and rule-less) and 80 composites: scalar "
              "multiples with positive / sign-free / complex symbolic scalars, sums (2-3 terms), Kronecker, BlockDiag with multiplicities, products, the "
              "A^H A / A^T A / A A^H patterns on the same and on different objects, principal and non-principal slices (slices and index arrays), "
              ".T / .H / Transpose / Adjoint wrappers, nestings", routines="lanczos (n <= 4), arnoldi (n <= 3), eig on Diagonal / Identity / Triangular "
              "(lower, upper) for k <= n, eig(Eigh) on a symbolic 2x2 spectral decomposition", values="all payloads and scalars symbolic")
BOUNDS["added"] = 'products of an operator with a slice / reordering of itself, off-diagonal blocks whose selectors coincide only after clipping, and declare-after-query sequences in both query orders (the operand answers isa() as before, the copy reports its declaration) Thorough tier: every ordered pair of 14 true-declared leaves under Kronecker / BlockDiag / Sum / Product / scaled sums / transposed products and the four transposing wrappers (1177 trees).'

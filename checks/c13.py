"""C13 — GMRES returns the residual-minimising iterate of its Krylov space.

(A, r0) := (Q H Q^H, s Q e1) with a concrete rational orthogonal / unitary Q and an upper-Hessenberg H whose sub-diagonal, the
scale s and the tolerance are symbolic (the upper triangle is symbolic for n = 2 and generic rational for n >= 3), x0 symbolic
(b := A x0 + r0).  The real `gmres` / `gmres_fwd` / batched `arnoldi` (through the pytree vmap stand-in) run on it.  Oracle:
x0 + Q_m argmin_y || beta e1 - Hbar_m y || by the normal equations of the full (m+1) x m Hessenberg matrix (exact elimination);
for m >= n: A x = b exactly."""
from fractions import Fraction as F

import numpy as np

import cola
from cola.linalg.inverse.gmres import gmres

from . import krylov as K
from .c12 import Counter, counting

PROPERTY = "C13"
OPTS = {
    "quick": dict(max_paths=24, case_budget_s=200, flip_timeout_ms=8000, partial_ok=True),
    "thorough": dict(max_paths=96, case_budget_s=900, flip_timeout_ms=20000, partial_ok=True),
}
ASSUMPTIONS = [
    "inputs: invertible A and initial residuals with Krylov data (H, s) in the listed orthonormal bases; sub-diagonal of H, s, tol (and all of H "
    "for n = 2) symbolic, upper triangle of H generic rational for n >= 3 (2 variants)",
    "well-scaled data: sub-diagonal entries >= 1e-3 >= tol/2 (the clipped normalisation of arnoldi is not triggered; see C15)",
    "path coverage is partial (magnitude orderings inside the zero-row masking fork heavily); every explored path is fully decided",
]


def _H(T, n, variant, complex_, symbolic_upper, zero_at=None):
    z = K.S(T, 0)
    rows = [[z for _ in range(n)] for _ in range(n)]
    cnt = 1 + variant
    for i in range(n):
        for j in range(n):
            if i <= j:
                if symbolic_upper:
                    rows[i][j] = T.var(f"h{i}{j}") if not complex_ else _c(T, f"h{i}{j}")
                else:
                    re = F((cnt * 7) % 11 - 4, 1 + (cnt % 3)) + (3 if i == j else 0)
                    im = F((cnt * 5) % 7 - 3, 2 + (cnt % 2)) if complex_ else 0
                    rows[i][j] = K.cst(T, re, im)
                    cnt += 1
            elif i == j + 1:
                rows[i][j] = z if zero_at == j else T.var(f"h{i}{j}", positive=True)
    return rows


def _c(T, name):
    re, im = T.var(name + "_re"), T.var(name + "_im")
    if T.sym:
        from symx.core import Sym
        return Sym(re.re, im.re)
    return complex(re, im)


def min_residual(T, Hm, Q, s, m, n, dt):
    """x - x0 for the GMRES optimum: Q_m y, y = argmin || s e1 - Hbar_m y ||"""
    mm = min(m, n)
    rows = min(mm + 1, n)
    Hb = Hm[:rows, :mm]
    HbH = np.conjugate(Hb).T
    G = HbH @ Hb
    rhs = HbH[:, 0:1] * s
    y = K.exact_solve(T, G, rhs)
    return (Q[:, :mm] @ y).reshape(-1)


def case_gmres(T, n, max_iters, variant=0, complex_=False, symbolic_upper=False, x0mode="none", cols="one", tol=1e-7, zero_at=None, via="function", tri=False, tiny=False):
    dt = 'complex128' if complex_ else 'float64'
    Q = K.basis(T, n, variant, complex_, dt)
    Hm = K.mat(T, _H(T, n, variant, complex_, symbolic_upper, zero_at), dt)
    s = T.var("s", positive=True)
    if tiny:
        # an initial residual far below any absolute threshold (the k-th restart of GMRES(m), iterative refinement): the iterate is still the
        # minimiser, everything scales with s
        T.assume(s >= 1e-14)
        T.assume(s <= 1e-11)
    else:
        T.assume(s >= 1e-3)
    for j in range(n - 1):
        if zero_at != j:
            T.assume(Hm[j + 1, j].real >= 1e-3)
            T.assume(Hm[j + 1, j].real <= 1e3)
    if symbolic_upper:
        # no row / column of H is negligible against the largest entry (the zero-padding mask of gmres treats entries below
        # 10 * tol * max|H| as padding)
        for i in range(n):
            T.assume(Hm[i, i].real * Hm[i, i].real >= 1e-4)
            for j in range(i, n):
                T.assume(Hm[i, j].real * Hm[i, j].real <= 1e4)
    A = Q @ Hm @ np.conjugate(Q).T
    r0 = s * Q[:, 0]
    tolv = T.scalar("tol", 'float64', positive=True, form='py') if tol == "sym" else float(tol)
    if tol == "sym":
        T.assume(tolv <= 1e-7)
    x0 = None
    if x0mode != "none":
        vals = [F(1, 2), F(-1, 3), F(2, 5), F(-3, 7)][:n]
        x0 = T.var("xs") * K.mat(T, [[K.cst(T, v) for v in vals]], dt)[0]
    b = r0 if x0 is None else A @ x0 + r0
    if cols == "two":
        s2 = T.var("s2", positive=True)
        T.assume(s2 >= 1e-3)
        from .c14 import _stack_cols
        b2 = s2 * Q[:, 0] if x0 is None else A @ x0 + s2 * Q[:, 0]
        B = _stack_cols(T, [b, b2], dt)
        X0 = None if x0 is None else _stack_cols(T, [x0, x0], dt)
        scales = [s, s2]
    else:
        B, X0, scales = b, x0, [s]
    cnt = Counter()
    Aop = counting(cola.ops.Dense(A), cnt, set())
    if via == "function":
        X, info = gmres(Aop, B, x0=X0, max_iters=max_iters, tol=tolv, **(dict(use_triangular=True) if tri else {}))
    else:
        Ainv = cola.linalg.inv(Aop, cola.linalg.GMRES(x0=X0, max_iters=max_iters, tol=tolv))
        X = Ainv @ B
    T.check("shape", tuple(X.shape) == tuple(B.shape), f"{X.shape} vs {B.shape}")
    T.check("products<=max_iters+1", cnt.n <= min(max_iters, n) + 1, f"{cnt.n} batched products with A for max_iters={max_iters}")
    Xc = [X] if cols == "one" else [X[:, j] for j in range(X.shape[1])]
    Bc = [B] if cols == "one" else [B[:, j] for j in range(B.shape[1])]
    zero = K.zeros_like_mode(T, (n, ), dt)
    for j, (xj, bj, sj) in enumerate(zip(Xc, Bc, scales)):
        x0e = zero if x0 is None else x0
        steps = max_iters if zero_at is None else min(max_iters, zero_at + 1)
        want = x0e + min_residual(T, Hm, Q, sj, steps, n if zero_at is None else zero_at + 1, dt)
        kw = dict(atol_scale=(sj if not T.sym else 1.0)) if tiny else {}
        T.eq(f"col{j}:iterate==argmin-residual[m={min(max_iters, n)}]", xj, want, dtype=False, **kw)
        if max_iters >= n or (zero_at is not None and max_iters > zero_at):
            T.eq(f"col{j}:A x == b", A @ xj, bj, dtype=False, **kw)


def case_blocks(T, n1, n2, max_iters, scaled=False, tol=1e-7):
    """A = H1 (+) c*H2 in the identity basis (exact invariant subspaces also in floats), right-hand sides s1 e_1 and s2 e_{n1+1}:
    Krylov spaces of different dimension (and, with `scaled`, of very different magnitude) in one batch"""
    dt = 'float64'
    n = n1 + n2
    z = K.S(T, 0)
    c = T.var("c", positive=True) if scaled else K.S(T, 1)
    if scaled:
        T.assume(c >= 1)
    r1 = _H(T, n1, 0, False, False)
    r2 = _H(T, n2, 1, False, False)
    rows = [[z for _ in range(n)] for _ in range(n)]
    subs = []
    for i in range(n1):
        for j in range(n1):
            rows[i][j] = r1[i][j] if not (i == j + 1) else T.var(f"a{i}{j}", positive=True)
            if i == j + 1:
                subs.append(rows[i][j])
    for i in range(n2):
        for j in range(n2):
            e = r2[i][j] if not (i == j + 1) else T.var(f"b{i}{j}", positive=True)
            if i == j + 1:
                subs.append(e)
            rows[n1 + i][n1 + j] = c * e
    for x in subs:
        T.assume(x >= 1e-2)
        T.assume(x <= 1e2)
    A = K.mat(T, rows, dt)
    s1, s2 = T.var("s1", positive=True), T.var("s2", positive=True)
    for x in (s1, s2):
        T.assume(x >= 1e-2)
        T.assume(x <= 1e2)
    e1 = [s1 if i == 0 else z for i in range(n)]
    e2 = [s2 if i == n1 else z for i in range(n)]
    B = K.mat(T, [[e1[i], e2[i]] for i in range(n)], dt)
    X, info = gmres(cola.ops.Dense(A), B, max_iters=max_iters, tol=tol)
    T.check("shape", tuple(X.shape) == (n, 2))
    if max_iters >= max(n1, n2):
        T.eq("blocks:A X == B", A @ X, B, dtype=False)


def case_view_operator(T, n, max_iters, cols):
    """a matrix-free operator whose product is a *view* of its operand (the flip J x = x[::-1]): the Krylov basis is stored in the same
    arrays that products return, so any in-place update of a product corrupts it.  J^2 = I: the Krylov space of a generic b has
    dimension 2 and GMRES is exact from m = 2 on."""
    dt = 'float64'
    A = cola.ops.LinearOperator(np.dtype(dt), (n, n), matmat=lambda X: X[::-1])
    Jm = K.mat(T, [[K.S(T, 1 if i + j == n - 1 else 0) for j in range(n)] for i in range(n)], dt)
    from fractions import Fraction as Fr
    dirs = [[Fr(1), Fr(2), Fr(-2), Fr(1, 2)][:n], [Fr(2), Fr(-1), Fr(1), Fr(3)][:n]]
    sc = [T.var(f"s{j}", positive=True) for j in range(cols)]
    for x in sc:
        T.assume(x >= 1e-2)
        T.assume(x <= 1e2)
    if cols == 1:
        b = K.mat(T, [[sc[0] * K.cst(T, d) for d in dirs[0]]], dt)[0]
    else:
        b = K.mat(T, [[sc[j] * K.cst(T, dirs[j][i]) for j in range(cols)] for i in range(n)], dt)
    X, info = gmres(A, b, max_iters=max_iters, tol=1e-9)
    T.check("shape", tuple(X.shape) == tuple(b.shape), f"{X.shape}")
    if max_iters >= 2:
        T.eq("view-operator: A x == b", Jm @ X, b, dtype=False)
    r0 = b
    r = b - Jm @ X
    nr = (r * r).sum() if cols == 1 else (r * r).sum(axis=0)
    n0 = (r0 * r0).sum() if cols == 1 else (r0 * r0).sum(axis=0)
    T.true("view-operator: residual does not exceed the initial one", [nr <= n0] if cols == 1 else [nr[j] <= n0[j] for j in range(cols)])


def cases(tier, seed):
    out = []
    for n, m, c in ((3, 1, 1), (3, 2, 1), (3, 3, 1), (4, 2, 1), (3, 2, 2)):
        out.append((f"view-operator:n{n}m{m}c{c}", case_view_operator, dict(n=n, max_iters=m, cols=c), dict(max_paths=6)))
    for m in (1, 2, 3, 4):
        out.append((f"sym2:m{m}", case_gmres, dict(n=2, max_iters=m, symbolic_upper=True)))
    out.append(("sym2-symtol:m2", case_gmres, dict(n=2, max_iters=2, symbolic_upper=True, tol="sym")))
    out.append(("sym2-x0:m1", case_gmres, dict(n=2, max_iters=1, symbolic_upper=True, x0mode="sym")))
    sizes = (3, 4) if tier == "thorough" else (3, )
    for n in sizes:
        for variant in (0, 1):
            for m in range(1, n + 3):
                if tier == "quick" and variant == 1 and m not in (1, n):
                    continue
                out.append((f"gen:n{n}v{variant}m{m}", case_gmres, dict(n=n, max_iters=m, variant=variant)))
        for m in (1, n - 1, n):
            out.append((f"x0:n{n}m{m}", case_gmres, dict(n=n, max_iters=m, x0mode="sym")))
            out.append((f"two:n{n}m{m}", case_gmres, dict(n=n, max_iters=m, cols="two")))
            out.append((f"inv:n{n}m{m}", case_gmres, dict(n=n, max_iters=m, via="inv")))
            out.append((f"inv-x0:n{n}m{m}", case_gmres, dict(n=n, max_iters=m, via="inv", x0mode="sym")))
            out.append((f"complex:n{n}m{m}", case_gmres, dict(n=n, max_iters=m, complex_=True)))
        out.append((f"two-x0:n{n}", case_gmres, dict(n=n, max_iters=n, cols="two", x0mode="sym")))
        out.append((f"symtol:n{n}", case_gmres, dict(n=n, max_iters=n, tol="sym")))
        for z in range(0, n - 1):
            out.append((f"breakdown:n{n}z{z}", case_gmres, dict(n=n, max_iters=n, zero_at=z, variant=-1)))
    for n, m, kw in ((2, 1, dict(symbolic_upper=True)), (2, 2, dict(symbolic_upper=True)), (3, 2, {}), (3, 3, {}), (3, 2, dict(via="inv"))):
        out.append((f"tiny-residual:n{n}m{m}" + "".join(f":{k}" for k in kw), case_gmres, dict(n=n, max_iters=m, tiny=True, **kw)))
    # the Givens-rotation variant of the small least-squares problem (use_triangular=True; the library documents it for one right-hand side)
    for m in (1, 2):
        out.append((f"tri-sym2:m{m}", case_gmres, dict(n=2, max_iters=m, symbolic_upper=True, tri=True)))
    for n in sizes:
        for m in range(1, n + 1):
            out.append((f"tri:n{n}m{m}", case_gmres, dict(n=n, max_iters=m, tri=True)))
        out.append((f"tri-x0:n{n}m{n - 1}", case_gmres, dict(n=n, max_iters=n - 1, tri=True, x0mode="sym")))
        out.append((f"tri-complex:n{n}m{n - 1}", case_gmres, dict(n=n, max_iters=n - 1, tri=True, complex_=True)))
    for (n1, n2, m) in ((1, 2, 2), (1, 2, 3), (2, 1, 3), (1, 3, 4)):
        out.append((f"blocks:{n1}+{n2}m{m}", case_blocks, dict(n1=n1, n2=n2, max_iters=m)))
    out.append(("blocks-scaled:1+2m3", case_blocks, dict(n1=1, n2=2, max_iters=3, scaled=True)))
    out.append(("blocks-scaled:2+1m3", case_blocks, dict(n1=2, n2=1, max_iters=3, scaled=True)))
    if tier == "quick":
        out.append(("gen:n4v0m2", case_gmres, dict(n=4, max_iters=2)))
        out.append(("gen:n4v0m4", case_gmres, dict(n=4, max_iters=4)))
    return out


BOUNDS = dict(
    quick="n = 2 with fully symbolic H (max_iters 1..4); n = 3 (and n = 4 for m in {2, 4}) with symbolic sub-diagonal / scale and 2 generic "
    "rational upper triangles, max_iters 1..n+2; symbolic x0 (scaled fixed direction); two right-hand sides of unrelated scale; complex with a "
    "rational unitary basis; breakdown (h[j+1,j] = 0) at every index; gmres() and inv(A, GMRES())", thorough="adds n = 4 for everything",
    values="sub-diagonal entries, s, s2, x0 scale (and H for n = 2, tol in the symtol cases) symbolic")
BOUNDS["added"] = 'the Givens-rotation variant (use_triangular=True) real and complex, and initial residuals of norm 1e-14 .. 1e-11'

"""C19 — structured operators are never densified: cost stays proportional to the factors.

(i) Products: the real `_matmat` of Kronecker (2-4 factors), KronSum, BlockDiag with multiplicities, Sum, Product, Diagonal, Identity,
ScalarMul, Permutation and Tridiagonal runs on *shape-symbolic* arrays (symx/shapes.py: dimensions are polynomials over positive integer
variables); every allocation is logged with its symbolic size and z3 proves, for ALL factor sizes and column counts, that no allocation
exceeds 2 n c + sum_i n_i^2 (n = full dimension, c = columns) — while n^2 does exceed it for large n (the bound is not vacuous).
(ii) Rule selection: symbolic execution of the real resolver (C04's machinery) proves that for every linear-algebra entry point with a
structural rule, every structured kind and every admissible algorithm — passed explicitly or omitted — the selected rule is the
structural one, not a dense base case.  (iii) The structural rules themselves are executed on symbolic payloads with concrete small
factor sizes and an allocation audit: the result keeps the factor-wise structure and no array with n^2 or more entries is created."""
import numpy as np
import z3

import cola
from cola import ops

PROPERTY = "C19"
OPTS = {"quick": dict(max_paths=12, case_budget_s=250, partial_ok=True, validate=False, abs_gen=True),
        "thorough": dict(max_paths=24, case_budget_s=900, partial_ok=True, validate=False, abs_gen=True)}
ASSUMPTIONS = ["memory is measured as the sizes of the arrays the executed code allocates (views are free); wall time is not modelled",
               "(i) covers the matrix-free products for all sizes; (iii) audits the structural linear-algebra rules at concrete factor sizes (2..4) where an "
               "n x n array is clearly distinguishable from factor-sized ones", "kinds whose product loops over a dimension in Python (Kernel) are outside"]


# ---- (i) shape-symbolic products --------------------------------------------------------------------
def _raw_op(cls, shape, dtype, **attrs):
    """operator instance without running the constructor (constructors that call len() cannot take symbolic sizes); only _matmat is exercised"""
    from cola.backends import np_fns
    o = object.__new__(cls)
    for k, v in dict(dtype=np.dtype(dtype), shape=shape, xnp=np_fns, annotations=set(), device=None, **attrs).items():
        setattr(o, k, v)
    return o


def _shape_ops(kind, D, SA):
    f8 = np.float64
    n1, n2, n3, n4 = (D(f"n{i}") for i in (1, 2, 3, 4))
    Dn = lambda a, b=None: ops.Dense(SA((a, b if b is not None else a), f8))  # noqa
    if kind == "kron2":
        return ops.Kronecker(Dn(n1), Dn(n2)), [n1, n2]
    if kind == "kron3":
        return ops.Kronecker(Dn(n1), Dn(n2), Dn(n3)), [n1, n2, n3]
    if kind == "kron4":
        return ops.Kronecker(Dn(n1), Dn(n2), Dn(n3), Dn(n4)), [n1, n2, n3, n4]
    if kind == "kron-rect":
        return ops.Kronecker(Dn(n1, n2), Dn(n3, n4)), [n1, n2, n3, n4]
    if kind == "kronsum2":
        return ops.KronSum(Dn(n1), Dn(n2)), [n1, n2]
    if kind == "kronsum3":
        return ops.KronSum(Dn(n1), Dn(n2), Dn(n3)), [n1, n2, n3]
    if kind == "blockdiag":
        return ops.BlockDiag(Dn(n1), Dn(n2), multiplicities=[2, 3]), [n1, n2]
    if kind == "blockdiag-rect":
        return ops.BlockDiag(Dn(n1, n2), Dn(n3), multiplicities=[3, 1]), [n1, n2, n3]
    if kind == "kron+diag":
        K = ops.Kronecker(Dn(n1), Dn(n2))
        return ops.Sum(K, _raw_op(ops.Diagonal, (n1 * n2, n1 * n2), f8, diag=SA((n1 * n2, ), f8))), [n1, n2]
    if kind == "kron@kron":
        return ops.Product(ops.Kronecker(Dn(n1), Dn(n2)), ops.Kronecker(Dn(n1), Dn(n2))), [n1, n2]
    if kind == "scalar*kron":
        K = ops.Kronecker(Dn(n1), Dn(n2))
        return ops.Product(ops.ScalarMul(2.0, (n1 * n2, n1 * n2), dtype=f8), K), [n1, n2]
    if kind == "kron+identity":
        K = ops.Kronecker(Dn(n1), Dn(n2))
        return ops.Sum(K, ops.Identity((n1 * n2, n1 * n2), f8)), [n1, n2]
    if kind == "bd@diag":
        B = ops.BlockDiag(Dn(n1), Dn(n2), multiplicities=[1, 2])
        return ops.Product(B, _raw_op(ops.Diagonal, (n1 + 2 * n2, n1 + 2 * n2), f8, diag=SA((n1 + 2 * n2, ), f8))), [n1, n2]
    if kind == "diag":
        return _raw_op(ops.Diagonal, (n1, n1), f8, diag=SA((n1, ), f8)), []
    if kind == "identity":
        return ops.Identity((n1, n1), f8), []
    if kind == "tridiag":
        return ops.Tridiagonal(SA((n1 - 1, ), f8), SA((n1, ), f8), SA((n1 - 1, ), f8)), []
    if kind == "perm":
        return _raw_op(ops.Permutation, (n1, n1), f8, perm=SA((n1, ), np.int64)), []
    raise ValueError(kind)


def case_matmat(T, kind):
    from symx import shapes
    from symx.shapes import ALLOC, Dim, ShapeArray
    from symx import smt, terms
    if not T.sym:
        T.check("replay: see tracemalloc demonstration in the seeded demos", True)
        return
    from cola.backends import np_fns
    saved = {k: getattr(np_fns, k) for k in ("zeros", "eye", "ones", "cast")}

    def _sym_shape(shape):
        return any(isinstance(d, Dim) for d in (shape if isinstance(shape, (tuple, list)) else (shape, )))

    np_fns.zeros = lambda shape, dtype, device=None: ShapeArray(shape, dtype, "zeros") if _sym_shape(shape) else saved["zeros"](shape, dtype, device)
    np_fns.ones = lambda shape, dtype, device=None: ShapeArray(shape, dtype, "ones") if _sym_shape(shape) else saved["ones"](shape, dtype, device)
    np_fns.eye = lambda n, m=None, dtype=None, device=None: ShapeArray((n, m if m is not None else n), dtype, "eye") if _sym_shape((n, )) else saved["eye"](n, m, dtype, device)
    np_fns.cast = lambda a, dt: a.astype(dt)
    try:
        shapes.TRACK[0] = False
        A, factors = _shape_ops(kind, Dim.var, ShapeArray)
        c = Dim.var("c")
        n_out, n_in = A.shape
        X = ShapeArray((n_in, c), np.float64)
        shapes.TRACK[0] = True
        ALLOC.clear()
        Y = A @ X
        allocs = list(ALLOC)
    finally:
        for k, v in saved.items():
            setattr(np_fns, k, v)
        shapes.TRACK[0] = True
    T.check("result shape", tuple(Y.shape) == (n_out, c), f"{Y.shape}")
    zv = {}

    def p2z(p):
        ts = []
        for m, co in p.t.items():
            t = z3.IntVal(int(co))
            for v, e in m:
                name = terms.VARS[v]
                x = zv.setdefault(name, z3.Int(name))
                for _ in range(e):
                    t = t * x
            ts.append(t)
        return z3.Sum(ts) if ts else z3.IntVal(0)

    N = p2z((Dim.w(n_out)).p) if True else None
    Nin = p2z(Dim.w(n_in).p)
    cz = p2z(c.p)
    fac = sum((p2z((f * f).p) for f in factors), z3.IntVal(0))
    nmax = z3.If(N >= Nin, N, Nin)
    bound = 2 * nmax * cz + fac
    if kind == "kron-rect":
        # rectangular factors (m1 x n1) kron (m2 x n2): the intermediate after the first factor has m1 * n2 * c entries
        z = {k: zv.setdefault(k, z3.Int(k)) for k in ("n1", "n2", "n3", "n4")}
        bound = 2 * (z["n1"] + z["n2"]) * (z["n3"] + z["n4"]) * cz + z["n1"] * z["n2"] + z["n3"] * z["n4"]
    sizes = [p2z(sz.p) for why, sz in allocs]
    dims_pos = [v >= 1 for v in zv.values()] + ([zv["n1"] >= 2] if kind == "tridiag" else [])
    T.note(dict(kind=kind, allocations=[f"{why}:{sz}" for why, sz in allocs][:12]))
    r, m = smt.check(dims_pos + [z3.Or([s_ > bound for s_ in sizes])] if sizes else dims_pos + [z3.BoolVal(False)], "alloc-bound", timeout_ms=30000, want_model=True)
    T._rec(f"{kind}: every allocation <= 2 n c + sum n_i^2 for all sizes", {"unsat": "holds-solver", "sat": "violated", "unknown": "unknown"}[r],
           "" if r != "sat" else f"model {m}", model={})
    if factors and kind != "kron-rect":
        r2, _ = smt.check(dims_pos + [N * Nin > bound], "alloc-bound-nonvacuous", timeout_ms=10000)
        T._rec(f"{kind}: the dense n^2 would exceed the bound (non-vacuity)", "holds-solver" if r2 == "sat" else "violated", kind="reach")


# ---- (ii) the structural rule is selected -------------------------------------------------------------
STRUCT = {
    "inv": ["Kronecker", "BlockDiag", "Diagonal", "Identity", "ScalarMul", "Product", "Permutation", "Triangular"],
    "pinv": ["Diagonal", "Identity", "ScalarMul", "Permutation"],
    "slogdet": ["Kronecker", "BlockDiag", "Diagonal", "Identity", "ScalarMul", "Product", "Permutation", "Triangular"],
    "diag": ["Kronecker", "KronSum", "BlockDiag", "Diagonal", "Identity", "ScalarMul", "Sum", "Dense"],
    "trace": ["Kronecker"],
    "apply_unary": ["Diagonal", "BlockDiag", "Identity", "ScalarMul", "Transpose", "Adjoint"],
    "exp": ["KronSum"],
    "pow": ["Kronecker"],
    "eig": ["Identity", "Diagonal", "Triangular"],
    "svd": ["Identity", "Diagonal"],
    "cholesky": ["Identity", "Diagonal", "ScalarMul", "Kronecker", "BlockDiag"],
    "plu": ["Identity", "Diagonal", "ScalarMul", "Kronecker", "BlockDiag"],
}


def case_selection(T, fname, pattern_index):
    from . import c04
    from cola.ops import LinearOperator
    pats = c04._patterns()[fname]
    pattern = pats[pattern_index]
    if not c04._ALGS:
        c04._ALGS.update(c04._algs())
    pos = [i for i, s in enumerate(pattern) if s == "op"][0]
    kinds = STRUCT[fname]

    def is_generic(sig):
        t = sig.types[pos] if pos < len(sig.types) else None
        return t is LinearOperator

    def classify(sig):
        return "generic-rule-selected" if is_generic(sig) else None

    def extra(ops_):
        o = ops_[0]
        cons = [z3.Or([o.k == o.kc[c04.KINDS.index(K)] for K in kinds])]
        # the structural Product / Kronecker / BlockDiag rules of inv, slogdet, diag, trace only apply to square factors
        cons.append(o.sq)
        return cons

    if T.sym:
        n_paths, failing = c04.explore_resolver(fname, pattern, classify=classify, extra=extra)
        T.note(dict(function=fname, pattern=str(pattern)[:160], resolver_paths=n_paths, failing=len(failing)))
    else:
        failing = None
        from plum import dispatch
        f = dispatch.functions[fname]
        f._resolve_pending_registrations()
    for tup in c04.lattice(pattern):
        K, an, cx, sq = tup[0]
        if K not in kinds or not sq:
            continue
        if K in ("Identity", "Permutation") and an in ("none", ) and False:
            continue
        label = c04._label(fname, pattern, tup)
        if T.sym:
            T.check(label, label not in failing, failing.get(label, ""))
        else:
            args = []
            it = iter(tup)
            for slot in pattern:
                if slot == "op":
                    args.append(c04._instance(*next(it)))
                elif slot[0] == "alg":
                    args.append(c04._ALGS[next(it)])
                else:
                    args.append(slot[1])
            try:
                sig = f._resolver.resolve(tuple(args))
                ok, why = not is_generic(sig), "generic-rule-selected"
            except Exception as e:
                ok, why = True, ""  # lookup failures are C04's subject
            T.check(label, ok, why)


# ---- (iii) allocation audit of the structural rules ------------------------------------------------------
def _audit_concrete(T, entry, structure):
    """float replay of the allocation audit: the real rule runs on real arrays with factor sizes 20 and 30 (n = 600, or 70 for block-diagonal);
    numpy's allocations are measured with tracemalloc and the peak must stay below a quarter of one dense n x n matrix"""
    import importlib
    import tracemalloc
    n1, n2 = 20, 30
    rs = np.random.RandomState(0)

    def psd(n):
        B = rs.randn(n, n) / np.sqrt(n)
        return cola.PSD(ops.Dense(B @ B.T + np.eye(n)))
    if structure == "kron":
        A = ops.Kronecker(psd(n1), psd(n2))
    elif structure == "blockdiag":
        A = ops.BlockDiag(psd(n1), psd(n2), multiplicities=[15, 10])
    elif structure == "kronsum":
        A = ops.KronSum(psd(n1), psd(n2))
    else:
        A = ops.Kronecker(psd(n1), psd(n2)) @ ops.Diagonal(1.0 + rs.rand(n1 * n2))
    n = A.shape[0]
    x = rs.randn(n)
    U = importlib.import_module("cola.linalg.unary.unary")
    D = importlib.import_module("cola.linalg.decompositions.decompositions")
    calls = _audit_calls(A, x, U, D)
    calls[entry]()  # warm-up: imports, dispatch caches
    tracemalloc.start()
    try:
        calls[entry]()
        peak = tracemalloc.get_traced_memory()[1]
    finally:
        tracemalloc.stop()
    dense_bytes = 8 * n * n
    T.check(f"{entry}[{structure}]: no array with n^2 or more entries is created", peak < dense_bytes / 4,
            f"peak additional memory {peak} bytes, one dense {n} x {n} matrix is {dense_bytes} bytes")
    T.check(f"{entry}[{structure}]: every array <= 2 n + sum n_i^2", peak < dense_bytes / 4, f"peak {peak} bytes")


def _audit_calls(A, x, U, D):
    return {
        "inv@x": lambda: cola.linalg.inv(A) @ x, "inv(Auto)@x": lambda: cola.linalg.inv(A, cola.linalg.Auto()) @ x, "solve": lambda: cola.linalg.solve(A, x),
        "logdet": lambda: cola.linalg.logdet(A), "logdet(Auto)": lambda: cola.linalg.logdet(A, cola.linalg.Auto(), cola.linalg.Auto()),
        "diag": lambda: cola.linalg.diag(A), "diag(Auto)": lambda: cola.linalg.diag(A, 0, cola.linalg.Auto()), "trace": lambda: cola.linalg.trace(A),
        "sqrt@x": lambda: U.sqrt(A) @ x, "sqrt(Auto)@x": lambda: U.sqrt(A, cola.linalg.Auto()) @ x, "exp(Auto)@x": lambda: U.exp(A, cola.linalg.Auto()) @ x, "exp@x": lambda: U.exp(A) @ x,
        "isqrt@x": lambda: U.isqrt(A) @ x, "isqrt(Auto)@x": lambda: U.isqrt(A, cola.linalg.Auto()) @ x, "log(Auto)@x": lambda: U.log(A, cola.linalg.Auto()) @ x,
        "pow(0.5)@x": lambda: U.pow(A, 0.5) @ x, "trace(Auto)": lambda: cola.linalg.trace(A, cola.linalg.Auto()),
        "pow(-2)@x": lambda: U.pow(A, -2, cola.linalg.Auto()) @ x, "cholesky@x": lambda: D.cholesky(A) @ x, "plu@x": lambda: D.plu(A)[2] @ x,
    }


def case_audit(T, entry, structure):
    from symx import array as sa
    import importlib
    if not T.sym:
        return _audit_concrete(T, entry, structure)
    dt = 'float64'
    n1, n2 = 2, 3

    spectral = entry.split("(")[0].split("@")[0] in ("sqrt", "exp", "pow", "isqrt", "log")

    def psd(name, n):
        from . import krylov as K
        if spectral:
            # factor given by its eigen-decomposition (registered with the eigh stand-in)
            V = K.basis(T, n, 0, False, dt)
            w = [T.var(f"{name}w{i}", positive=True) for i in range(n)]
            for x_ in w:
                T.assume(x_ >= 1e-1)
            z = K.S(T, 0)
            M = V @ K.mat(T, [[w[i] if i == j else z for j in range(n)] for i in range(n)], dt) @ V.T
            if T.sym:
                from symx import lapack
                lapack.register("eigh", K.raw(T, M), (K.raw(T, K.mat(T, [w], dt))[0], K.raw(T, V)))
            return cola.PSD(ops.Dense(M))
        L = T.arr(name, (n, n), dt).copy()
        for i in range(n):
            for j in range(i + 1, n):
                L[i, j] = 0.
        for i in range(n):
            T.assume(L[i, i] >= 1e-1)
        return cola.PSD(ops.Dense(L @ L.T))

    if structure == "kron":
        A = ops.Kronecker(psd("a", n1), psd("b", n2))
    elif structure == "blockdiag":
        A = ops.BlockDiag(psd("a", n1), psd("b", n2), multiplicities=[2, 1])
    elif structure == "kronsum":
        A = ops.KronSum(psd("a", n1), psd("b", n2))
    elif structure == "kron*scalar":
        A = ops.Kronecker(psd("a", n1), psd("b", n2)) @ ops.Diagonal(T.arr("d", (n1 * n2, ), dt, positive=True))
    n = A.shape[0]
    x = T.arr("x", (n, ), dt)
    budget = 2 * n + n1 * n1 + n2 * n2  # operand-sized and factor-sized arrays only
    sizes = []
    orig_new = sa.SymArray.__new__

    def tracking_new(cls, objarr, ld):
        o = orig_new(cls, objarr, ld)
        sizes.append(int(o.size))
        return o

    U = importlib.import_module("cola.linalg.unary.unary")
    D = importlib.import_module("cola.linalg.decompositions.decompositions")
    calls = _audit_calls(A, x, U, D)
    sa.SymArray.__new__ = staticmethod(tracking_new) if False else tracking_new
    try:
        if T.sym:
            from symx import lapack
        r = calls[entry]()
    finally:
        sa.SymArray.__new__ = orig_new
    big = [s_ for s_ in sizes if s_ >= n * n]
    T.check(f"{entry}[{structure}]: no array with n^2 or more entries is created", not big, f"largest arrays: {sorted(sizes)[-3:]} (operand {n}, factors {n1 * n1}, {n2 * n2})")
    T.check(f"{entry}[{structure}]: every array <= 2 n + sum n_i^2", max(sizes or [0]) <= budget, f"largest array {max(sizes or [0])}")


def case_generic_paths(T, what):
    """the generic fall-backs that structural rules and estimators lean on (densifying a tall / wide sub-operator, exact probing in blocks of
    100 columns) must not build an n x n array either.  Real float code, real sizes, numpy allocations measured with tracemalloc."""
    import tracemalloc
    from symx import shim
    was = shim.MODE.get("symbolic")
    shim.symbolic(False)
    try:
        if what in ("sum-many-terms", "product-many-factors"):
            # peak additional memory of a product with a many-term Sum / many-factor Product is a fixed multiple of the operand, not one
            # operand-sized array per term: compare 4 terms with 96 terms of the same kind
            n1, cols = 30, 64
            rs = np.random.RandomState(0)

            def peak_for(terms):
                fs = [ops.Kronecker(ops.Dense(rs.randn(n1, n1)), ops.Dense(rs.randn(n1, n1))) for _ in range(terms)]
                S = ops.Sum(*fs) if what == "sum-many-terms" else ops.Product(*fs)
                X = rs.randn(n1 * n1, cols)
                S @ X
                tracemalloc.start()
                try:
                    S @ X
                    return tracemalloc.get_traced_memory()[1], X.nbytes
                finally:
                    tracemalloc.stop()
            p4, xb = peak_for(4)
            p96, _ = peak_for(96)
            T.check(f"{what}: peak memory of S @ X does not grow with the number of terms", p96 <= p4 + 4 * xb,
                    f"4 terms: {p4} bytes, 96 terms: {p96} bytes, operand {xb} bytes")
            return
        if what == "to_dense-tall":
            m, k = 4000, 10
        else:
            m = k = 1600
        B = np.ones((min(m, 50), k))

        def mm(X):
            return np.ones((m, 1)) * (B[:1] @ X)  # rank-one action: O(m c) memory
        A = ops.LinearOperator(np.dtype('float64'), (m, k), matmat=mm)
        if what.startswith("to_dense"):
            run = lambda: A.to_dense()  # noqa
        elif what == "exact-diag":
            run = lambda: cola.linalg.diag(A, 0, cola.linalg.Exact() if hasattr(cola.linalg, "Exact") else _exact())  # noqa
        else:
            run = lambda: cola.linalg.diag(ops.Sum(A, ops.ScalarMul(0.5, (m, m), dtype=np.dtype('float64'))), 0, _exact())  # noqa
        tracemalloc.start()
        try:
            out = run()
            peak = tracemalloc.get_traced_memory()[1]
        finally:
            tracemalloc.stop()
    finally:
        shim.symbolic(was)
    big = 8 * max(m, k) ** 2
    T.check(f"{what}: peak additional memory stays below a quarter of a dense {max(m, k)} x {max(m, k)} array", peak < big / 4, f"peak {peak} bytes, dense square {big} bytes")


def _exact():
    import importlib
    return importlib.import_module("cola.linalg.trace.diagonal_estimation").Exact()


def cases(tier, seed):
    out = []
    # (a wide operator is densified through the generic left product, which needs linear_transpose: not available on the NumPy backend)
    for what in ("to_dense-tall", "exact-diag", "sum-with-generic-diag", "sum-many-terms", "product-many-factors"):
        out.append((f"generic:{what}", case_generic_paths, dict(what=what), dict(validate=True)))
    for kind in ("kron2", "kron3", "kron4", "kron-rect", "kronsum2", "kronsum3", "blockdiag", "blockdiag-rect", "kron+diag", "kron@kron", "scalar*kron", "kron+identity", "bd@diag",
                 "diag", "identity", "tridiag", "perm"):
        out.append((f"matmat:{kind}", case_matmat, dict(kind=kind)))
    from . import c04
    for fname in STRUCT:
        for i, p in enumerate(c04._patterns()[fname]):
            out.append((f"select:{fname}#{i}", case_selection, dict(fname=fname, pattern_index=i)))
    audits = {"kron": ["inv@x", "inv(Auto)@x", "solve", "logdet", "logdet(Auto)", "diag", "diag(Auto)", "trace", "sqrt(Auto)@x", "sqrt@x", "pow(-2)@x", "cholesky@x", "plu@x",
                       "isqrt@x", "isqrt(Auto)@x", "pow(0.5)@x", "trace(Auto)"],
              "blockdiag": ["inv@x", "inv(Auto)@x", "logdet", "diag", "sqrt(Auto)@x", "exp(Auto)@x", "cholesky@x", "plu@x", "isqrt@x", "log(Auto)@x", "trace(Auto)"],
              "kronsum": ["exp(Auto)@x", "exp@x", "diag"], "kron*scalar": ["inv@x", "logdet"]}
    for st, es in audits.items():
        for e in es:
            # validate: every audit is also measured on the real float code (tracemalloc, factor sizes 20 and 30)
            out.append((f"audit:{st}:{e}", case_audit, dict(entry=e, structure=st), dict(validate=True)))
    return out


BOUNDS = dict(products="17 structured operators incl. Kronecker with 2-4 (also rectangular) factors, KronSum, BlockDiag with multiplicities, their sums / products with Diagonal, "
              "Identity and ScalarMul; all factor sizes and column counts >= 1 (symbolic)", selection="12 entry points x structured kinds x annotation options x real / complex x admissible "
              "algorithms, omitted and explicit", audit="Kronecker(2x2, 3x3), BlockDiag(2x2 ^2, 3x3), KronSum, Kronecker @ Diagonal at concrete sizes with symbolic payloads")
BOUNDS["added"] = 'isqrt / log / pow(0.5) / trace(Auto) audits; peak memory of a product with a 96-term Sum / 96-factor Product compared with 4 terms'

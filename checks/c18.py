"""C18 — operators are persistent values: inputs never mutated, flatten round-trips.

(a) Mutation: every sequence of <= 2 (thorough: <= 3) public operations from an alphabet (products on both sides, .T / .H, algebra, annotation,
indexing, to_dense, inv / solve, diag / trace, cg with a caller-owned initial guess, lanczos / arnoldi with a caller-owned start vector) is run
on a pool of operators of every kind built from caller-owned symbolic arrays.  Afterwards every caller-owned array must be entrywise
identical to its snapshot (aliasing + in-place updates are visible because the symbolic arrays share storage exactly like ndarrays), every
pool operator must have the same dense form and annotations, and repeating the first call must give the same result.
(b) flatten / unflatten: for every kind, unflatten(flatten(A)) has the same kind / shape / dtype / annotations / matrix, the leaves are exactly
the array parameters, and substituting one leaf changes exactly that parameter — for every reachable pre-state of the per-class attribute
registry (set by operators instantiated earlier in the process), which is explored as a symbolic input."""
import itertools

import json

import numpy as np

import cola
from cola import ops

from . import krylov as K
from .c01 import C16, F8
from .common import build, expected, tree_name

PROPERTY = "C18"
OPTS = {
    "quick": dict(max_paths=16, case_budget_s=200, flip_timeout_ms=5000, partial_ok=True),
    "thorough": dict(max_paths=32, case_budget_s=900, flip_timeout_ms=10000, partial_ok=True),
}
ASSUMPTIONS = ["'bit-identical' is checked as entrywise identity of the symbolic contents (and as exact equality of the floats in the replay)",
               "device / dtype moves: NumPy has no devices; .to(dtype) is exercised through flatten / unflatten only"]


# ---- (a) mutation -------------------------------------------------------------------------------
def _pool(T):
    """caller-owned arrays and operators built from them"""
    dt = F8
    arrs = dict(
        M=T.arr("M", (2, 2), dt), N=T.arr("N", (2, 2), dt), d=T.arr("d", (2, ), dt, positive=True), x=T.arr("x", (2, ), dt), X=T.arr("X", (2, 2), dt),
        x0=T.arr("x0", (2, ), dt), v=T.arr("v", (2, ), dt), al=T.arr("al", (1, ), dt), be=T.arr("be", (2, ), dt), ga=T.arr("ga", (1, ), dt),
        hv=T.arr("hv", (2, 1), dt), Bp=T.arr("Bp", (2, 2), dt), x4=T.arr("x4", (4, ), dt))
    arrs["idx"] = np.array([-1, 0])
    arrs["perm"] = np.array([1, 0])
    # positive definite payload L L^T (L lower triangular with positive diagonal)
    Lp = arrs["Bp"].copy()
    Lp[0, 1] = 0.
    T.assume(Lp[0, 0] >= 1e-1)
    T.assume(Lp[1, 1] >= 1e-1)
    P = Lp @ Lp.T
    arrs["P"] = P
    # caller-owned arrays with concrete contents for the iterative solvers (their control flow depends on norms)
    arrs["bc"] = T.const(np.array([1.0, 2.0]))
    arrs["Bc"] = T.const(np.array([[1.0, 0.5], [2.0, -1.0]]))
    arrs["x0c"] = T.const(np.array([0.5, -0.25]))
    arrs["X0c"] = T.const(np.array([[0.5, 1.0], [-0.25, 0.0]]))
    arrs["vc"] = T.const(np.array([3.0, 4.0]))
    arrs["dc"] = T.const(np.array([2.0, 3.0]))
    opsd = dict(
        dense=ops.Dense(arrs["M"]), dense2=ops.Dense(arrs["N"]), diag=ops.Diagonal(arrs["d"]), ident=ops.Identity((2, 2), np.dtype(dt)),
        scal=ops.ScalarMul(T.scalar("c", dt), (2, 2), dtype=np.dtype(dt)), tri=ops.Triangular(arrs["M"]), tridiag=ops.Tridiagonal(arrs["al"], arrs["be"], arrs["ga"]),
        perm=ops.Permutation(arrs["perm"], np.dtype(dt)), house=ops.Householder(arrs["hv"]), psd=cola.PSD(ops.Dense(P)),
        psdc=cola.PSD(ops.Diagonal(arrs["dc"])))
    opsd["sum_id_first"] = opsd["ident"] + opsd["dense"]
    opsd["sum"] = opsd["dense"] + opsd["diag"]
    opsd["prod"] = opsd["dense"] @ opsd["dense2"]
    opsd["kron"] = ops.Kronecker(opsd["dense"], opsd["diag"])
    opsd["bd"] = ops.BlockDiag(opsd["dense"], opsd["diag"], multiplicities=[1, 1])
    opsd["sliced"] = opsd["dense"][np.array([1, 0]), :]
    opsd["transpose"] = ops.Transpose(opsd["tridiag"])
    # lazily composed operators carrying declared annotations (true declarations: products of permutations)
    opsd["stf"] = cola.Stiefel(ops.Product(opsd["perm"], opsd["perm"]))
    opsd["uni"] = cola.Unitary(ops.Sum(opsd["perm"], ops.ScalarMul(0., (2, 2), dtype=np.dtype(dt))))
    return arrs, opsd


def _snapshot(T, arrs, opsd):
    snap = {}
    for k, a in arrs.items():
        snap["arr:" + k] = np.array(a, copy=True) if not T.sym or not hasattr(a, "raw") else a.copy()
    for k, A in opsd.items():
        snap["op:" + k] = (A.to_dense().copy(), frozenset(a.__name__ for a in A.annotations), tuple(A.shape), str(A.dtype))
    return snap


ALPHABET = ["sum_id_first@x", "sum_id_first@X", "sum@x", "x@sum", "dense@x", "x@dense", "diag@X", "kron@x4", "bd@x4", "sliced@x", "prod@x", "tridiag@X", "house@X",
            "perm@X", "dense.T@x", "dense.H@x", "sum.T@x", "to_dense:kron", "to_dense:sliced", "psd+dense", "2*dense", "dense/2", "-sum", "dense@dense2", "PSD(dense)",
            "dense[0]", "dense[idx,:]", "dense[:,1]", "inv(dense)@x", "inv(psd)@x", "inv(tri)@x", "solve(diag,x)", "x@inv(dense)", "diag(sum)", "trace(kron)",
            "cg(psd,x,x0)", "cg(psd,X)", "inv(psd,CG(x0))@X", "lanczos(psd,v)", "arnoldi(dense,v)", "exp(diag)@x", "sqrt(psd)@x", "cholesky(psd)", "plu(dense)",
            "stf.T@x", "stf.H@x", "x@stf", "uni.H@x", "inv(uni)@x", "T(kron(stf,psd))",
            "logdet(diag)", "slogdet(tri)", "logdet(psd)", "logdet(kron)", "eig(diag)", "pinv(diag)@x", "diag(diag)"]


def _apply(T, name, arrs, O):
    x, X, x4 = arrs["x"], arrs["X"], arrs["x4"]
    if name.endswith("@x") and name.split("@")[0] in O:
        return O[name.split("@")[0]] @ x
    if name.endswith("@X") and name.split("@")[0] in O:
        return O[name.split("@")[0]] @ X
    if name.endswith("@x4"):
        return O[name.split("@")[0]] @ x4
    tbl = {
        "x@sum": lambda: x @ O["sum"], "x@dense": lambda: x @ O["dense"], "dense.T@x": lambda: O["dense"].T @ x, "dense.H@x": lambda: O["dense"].H @ x,
        "sum.T@x": lambda: O["sum"].T @ x, "to_dense:kron": lambda: O["kron"].to_dense(), "to_dense:sliced": lambda: O["sliced"].to_dense(),
        "psd+dense": lambda: (O["psd"] + O["dense"]) @ x, "2*dense": lambda: (2 * O["dense"]) @ x, "dense/2": lambda: (O["dense"] / 2) @ x, "-sum": lambda: (-O["sum"]) @ x,
        "dense@dense2": lambda: (O["dense"] @ O["dense2"]) @ x, "PSD(dense)": lambda: cola.PSD(O["dense"]) @ x, "dense[0]": lambda: O["dense"][0],
        "dense[idx,:]": lambda: O["dense"][arrs["idx"], :] @ x, "dense[:,1]": lambda: O["dense"][:, 1], "inv(dense)@x": lambda: cola.linalg.inv(O["dense"]) @ x,
        "inv(psd)@x": lambda: cola.linalg.inv(O["psd"]) @ x, "inv(tri)@x": lambda: cola.linalg.inv(ops.Triangular(np.tril(arrs["M"]) if not T.sym else _tril(arrs["M"]))) @ x,
        "solve(diag,x)": lambda: cola.linalg.solve(O["diag"], x), "x@inv(dense)": lambda: x @ cola.linalg.inv(O["dense"]),
        "diag(sum)": lambda: cola.linalg.diag(O["sum"]), "trace(kron)": lambda: cola.linalg.trace(O["kron"]),
        "cg(psd,x,x0)": lambda: _cg(O["psdc"], arrs["bc"], arrs["x0c"]), "cg(psd,X)": lambda: _cg(O["psdc"], arrs["Bc"], None),
        "inv(psd,CG(x0))@X": lambda: cola.linalg.inv(O["psdc"], cola.linalg.CG(x0=arrs["X0c"], max_iters=1, tol=1e-9)) @ arrs["Bc"],
        "lanczos(psd,v)": lambda: _lan(O["psdc"], arrs["vc"]), "arnoldi(dense,v)": lambda: _arn(O["dense"], arrs["vc"]),
        "exp(diag)@x": lambda: _un().exp(O["diag"]) @ x, "sqrt(psd)@x": lambda: _un().sqrt(O["diag"]) @ x, "cholesky(psd)": lambda: _dec().cholesky(O["diag"]).to_dense(),
        "plu(dense)": lambda: _dec().plu(O["diag"])[2].to_dense(),
        "logdet(diag)": lambda: cola.linalg.logdet(O["diag"]), "slogdet(tri)": lambda: cola.linalg.slogdet(O["tri"])[1], "logdet(psd)": lambda: cola.linalg.logdet(O["psdc"]),
        "logdet(kron)": lambda: cola.linalg.logdet(ops.Kronecker(O["diag"], O["psdc"])), "eig(diag)": lambda: cola.linalg.eig(O["psdc"], 2, "LM")[0],
        "pinv(diag)@x": lambda: cola.linalg.pinv(O["diag"]) @ x, "diag(diag)": lambda: cola.linalg.diag(O["diag"]),
        "stf.T@x": lambda: O["stf"].T @ x, "stf.H@x": lambda: O["stf"].H @ x, "x@stf": lambda: x @ O["stf"], "uni.H@x": lambda: O["uni"].H @ x,
        "inv(uni)@x": lambda: cola.linalg.inv(O["uni"]) @ x, "T(kron(stf,psd))": lambda: ops.Kronecker(O["stf"], O["psd"]).T @ x4,
    }
    return tbl[name]()


def _tril(M):
    A = M.copy()
    A[0, 1] = 0.
    return A


def _un():
    import importlib
    return importlib.import_module("cola.linalg.unary.unary")


def _dec():
    import importlib
    return importlib.import_module("cola.linalg.decompositions.decompositions")


def _cg(A, b, x0):
    from cola.linalg.inverse.cg import cg
    return cg(A, b, x0=x0, max_iters=1, tol=1e-9)[0]


def _lan(A, v):
    from cola.linalg.decompositions.lanczos import lanczos
    Q, Tm, _ = lanczos(A, v, max_iters=1, tol=1e-9)
    return Q.to_dense()


def _arn(A, v):
    from cola.linalg.decompositions.arnoldi import arnoldi
    Q, H, _ = arnoldi(A, v, max_iters=1, tol=1e-9)
    return Q.to_dense()


def case_sequence(T, seq):
    from symx.core import Inconclusive, PathAbort
    from symx.harness import CaseTimeout
    arrs, O = _pool(T)
    snap = _snapshot(T, arrs, O)
    first = None
    for i, name in enumerate(seq):
        try:
            r = _apply(T, name, arrs, O)
        except (Inconclusive, PathAbort, CaseTimeout):
            raise
        except Exception as e:
            T.check(f"{name}:!exception", False, f"{type(e).__name__}: {e}"[:200])
            return
        if i == 0:
            first = r.copy() if hasattr(r, "copy") else r
    for k, a in arrs.items():
        if k in ("idx", "perm"):
            T.check(f"caller array {k} unchanged", bool(np.array_equal(np.asarray(a), np.asarray(snap["arr:" + k]))))
        else:
            T.eq(f"caller array {k} unchanged", a, snap["arr:" + k], dtype=False)
    for k, A in O.items():
        D0, ann0, shp0, dt0 = snap["op:" + k]
        T.eq(f"operator {k}: same matrix", A.to_dense(), D0, dtype=False)
        T.check(f"operator {k}: same annotations / shape / dtype", frozenset(a.__name__ for a in A.annotations) == ann0 and tuple(A.shape) == shp0 and str(A.dtype) == dt0)
    again = _apply(T, seq[0], arrs, O)
    T.eq(f"repeating {seq[0]} gives the same result", again, first, dtype=False)


# ---- (a') algorithm objects are inputs too -----------------------------------------------------
def _alg_scenarios():
    import importlib
    from cola.linalg.decompositions.decompositions import Arnoldi, Lanczos
    E_ = importlib.import_module("cola.linalg.eig.eigs")
    U_ = importlib.import_module("cola.linalg.unary.unary")
    S_ = importlib.import_module("cola.linalg.svd.svd")
    P_ = importlib.import_module("cola.linalg.inverse.pinv")
    D_ = importlib.import_module("cola.linalg.trace.diag_trace")
    L_ = cola.linalg
    psd = lambda M: cola.PSD(ops.Dense(M @ M.T + len(M) * np.eye(len(M))))  # noqa
    gen = lambda M: ops.Dense(M + len(M) * np.eye(len(M)))  # noqa
    return {
        "eig(Arnoldi)": (lambda: Arnoldi(max_iters=50), gen, lambda A, alg: np.sort_complex(np.asarray(E_.eig(A, A.shape[0], "LM", alg)[0]))),
        "eig(Lanczos)": (lambda: Lanczos(max_iters=50), psd, lambda A, alg: np.sort(np.asarray(E_.eig(A, A.shape[0], "LM", alg)[0]).real)),
        "sqrt(Arnoldi)": (lambda: Arnoldi(max_iters=50), gen, lambda A, alg: U_.sqrt(A, alg) @ np.ones(A.shape[0])),
        "exp(Lanczos)": (lambda: Lanczos(max_iters=50), psd, lambda A, alg: U_.exp(A, alg) @ np.ones(A.shape[0])),
        "svd(Lanczos)": (lambda: Lanczos(max_iters=50), gen, lambda A, alg: np.asarray(S_.svd(A, A.shape[0], "LM", alg)[1].diag)),
        "pinv(CG)": (lambda: L_.CG(max_iters=60, tol=1e-12), gen, lambda A, alg: P_.pinv(A, alg) @ np.ones(A.shape[0])),
        "inv(CG)": (lambda: L_.CG(max_iters=60, tol=1e-12), psd, lambda A, alg: L_.inv(A, alg) @ np.ones(A.shape[0])),
        "inv(GMRES)": (lambda: L_.GMRES(max_iters=40, tol=1e-12), gen, lambda A, alg: L_.inv(A, alg) @ np.ones(A.shape[0])),
        "diag(Auto)": (lambda: L_.Auto(tol=0.2, max_iters=3, key=5), lambda M: cola.no_dispatch(gen(M)), lambda A, alg: D_.diag(A, 0, alg)),
        # the automatic algorithm, passed explicitly and left to the default argument (alg = None here): option objects shared between calls
        "pinv(Auto)": (lambda: L_.Auto(), gen, lambda A, alg: (P_.pinv(A, alg) if alg is not None else P_.pinv(A)) @ np.ones(A.shape[0])),
        "pinv(default)": (lambda: None, gen, lambda A, alg: P_.pinv(A) @ np.ones(A.shape[0])),
        "inv(Auto)": (lambda: L_.Auto(), gen, lambda A, alg: L_.inv(A, alg) @ np.ones(A.shape[0])),
        "inv(default)": (lambda: None, psd, lambda A, alg: L_.inv(A) @ np.ones(A.shape[0])),
        "eig(Auto)": (lambda: L_.Auto(), psd, lambda A, alg: np.sort(np.asarray(E_.eig(A, A.shape[0], "LM", alg)[0]).real)),
        "svd(Auto)": (lambda: L_.Auto(), gen, lambda A, alg: np.asarray(S_.svd(A, A.shape[0], "LM", alg)[1].diag)),
        "sqrt(Auto)": (lambda: L_.Auto(), psd, lambda A, alg: U_.sqrt(A, alg) @ np.ones(A.shape[0])),
        "logdet(default)": (lambda: None, psd, lambda A, alg: np.asarray(L_.logdet(A))),
        "trace(Auto)": (lambda: L_.Auto(), lambda M: cola.no_dispatch(gen(M)), lambda A, alg: np.asarray(D_.trace(A, alg))),
        "logdet(Lanczos)": (lambda: Lanczos(max_iters=50), psd, lambda A, alg: np.asarray(L_.logdet(A, alg, L_.Exact() if hasattr(L_, "Exact") else D_.Exact()))),
    }


def case_alg_object(T, name):
    """an algorithm object handed to a call is an input: its fields are the same afterwards, and using it first on a small operator and then
    on a larger one gives the same result as a fresh object (real float code with the vmap / linear_transpose additions; the obligations are
    identities between bit patterns, there is nothing symbolic to quantify over)"""
    from cola.backends import np_fns
    from symx import shim
    was = shim.MODE.get("symbolic")
    shim.symbolic(False)
    saved = (np_fns.vmap, np_fns.linear_transpose)
    shim.functional_additions(np_fns)
    try:
        factory, mk, call = _alg_scenarios()[name]
        rs = np.random.RandomState(3)
        small, big = mk(rs.randn(3, 3)), mk(rs.randn(7, 7))
        alg = factory()

        def snap(a):
            if a is None:
                return {}
            return {k: (np.array(v, copy=True) if isinstance(v, np.ndarray) else v) for k, v in vars(a).items()}

        def all_algs():
            # every algorithm / option object alive in the process, the default arguments of the library's functions included
            import gc
            from cola.linalg.algorithm_base import Algorithm
            return [o for o in gc.get_objects() if isinstance(o, Algorithm)]

        def same(d1, d2):
            return d1.keys() == d2.keys() and all((np.array_equal(d1[k], d2[k]) if isinstance(d1[k], np.ndarray) else d1[k] == d2[k]) for k in d1)
        before = snap(alg)
        alive = [(o, snap(o)) for o in all_algs()]
        try:
            call(small, alg)
            T.check(f"{name}: the algorithm object's fields are unchanged by the call", same(before, snap(alg)), f"{before} -> {snap(alg)}"[:300])
            changed = [f"{type(o).__name__}: {b} -> {snap(o)}" for o, b in alive if not same(b, snap(o))]
            T.check(f"{name}: no option object alive before the call (shared defaults included) was modified", not changed, "; ".join(changed)[:300])
            r_reused = np.asarray(call(big, alg))
            r_fresh = np.asarray(call(big, factory()))
            T.check(f"{name}: reusing the object on a larger operator == a fresh object", r_reused.shape == r_fresh.shape and bool(np.array_equal(r_reused, r_fresh)),
                    f"max difference {np.abs(r_reused - r_fresh).max() if r_reused.shape == r_fresh.shape else 'shapes ' + str((r_reused.shape, r_fresh.shape))}")
            T.check(f"{name}: fields unchanged after the second call", same(before, snap(alg)), f"{before} -> {snap(alg)}"[:300])
        except Exception as e:
            T.check(f"{name}:!exception", False, f"{type(e).__name__}: {e}"[:200])
    finally:
        np_fns.vmap, np_fns.linear_transpose = saved
        shim.symbolic(was)


# ---- (b) flatten / unflatten -------------------------------------------------------------------
LEAF_COUNT = {"dense": 1, "tri": 1, "diag": 1, "scalar": 1, "identity": 0, "tridiag": 3, "perm": 1, "householder": 2}


def _arrays_of(op):
    """array parameters reachable from the operator's attributes (recursively through operator attributes / tuples)"""
    out = []

    def rec(v):
        if isinstance(v, np.ndarray):
            out.append(v)
        elif isinstance(v, cola.ops.LinearOperator):
            for k, vv in sorted(vars(v).items()):
                if k in ("xnp", "shape", "dtype", "device", "annotations"):
                    continue
                rec(vv)
        elif isinstance(v, (tuple, list)):
            for vv in v:
                rec(vv)

    rec(op)
    return out


def case_flatten(T, tree, use_first=False):
    A, R = build(T, tree)
    if use_first:
        # the operator has been used before it is flattened (memoised intermediates must not travel with the structure)
        A.to_dense()
        A @ np.ones((A.shape[1], 1))
        A.T
        cola.densify(A)
    leaves, unflatten = A.flatten()
    params = _arrays_of(A)
    T.check("leaves are exactly the array parameters", len(leaves) == len(params) and all(any(l is p for p in params) for l in leaves),
            f"{len(leaves)} leaves, {len(params)} array parameters")
    B = unflatten(leaves)
    T.check("same kind", type(B) is type(A), f"{type(B).__name__} vs {type(A).__name__}")
    T.check("same shape / dtype / annotations", tuple(B.shape) == tuple(A.shape) and B.dtype == A.dtype and B.annotations == A.annotations,
            f"{B.shape} {B.dtype} {B.annotations}")
    T.eq("same matrix", B.to_dense(), expected(T, R), dtype=False)
    T.eq("original unchanged", A.to_dense(), expected(T, R), dtype=False)
    # substituting one leaf changes exactly that parameter: the result equals the operator rebuilt from the substituted payload
    for i, l in enumerate(leaves):
        if not isinstance(l, np.ndarray) or l.dtype.kind not in "fc":
            continue
        new = T.arr(f"S{i}", tuple(l.shape), l.dtype)
        Bi = unflatten([new if j == i else x for j, x in enumerate(leaves)])
        leaves2, _ = Bi.flatten()
        T.check(f"leaf {i}: substituted array is the new leaf", leaves2[i] is new and all(leaves2[j] is leaves[j] for j in range(len(leaves)) if j != i))
        T.eq(f"leaf {i}: original operator unaffected", A.to_dense(), expected(T, R), dtype=False)
        T.check(f"leaf {i}: shape kept", tuple(Bi.shape) == tuple(A.shape))
        T.eq(f"leaf {i}: the rebuilt operator's dense form is its action on the identity", Bi.to_dense(),
             Bi @ np.eye(A.shape[1], dtype=np.result_type(A.dtype, np.float32)), dtype=False)
    # rebuilt from the parameters of a second, independently built operator of the same tree: represents that operator's matrix, nothing of A's
    A2, R2 = build(T, tree, pfx="M")
    leaves2, _ = A2.flatten()
    if len(leaves2) == len(leaves) and "generic" not in json.dumps(tree):  # a matrix-free operator keeps its payload in a closure, not in leaves
        B2 = unflatten(leaves2)
        T.eq("rebuilt from another operator's parameters: represents that operator", B2.to_dense(), expected(T, R2), dtype=False)
        x = T.arr("xf", (A.shape[1], ), 'float64')
        from .common import ref_matmul, rfrom, Ref
        T.eq("rebuilt from another operator's parameters: same action", B2 @ x, expected(T, ref_matmul(T, R2, Ref(rfrom(T, x.reshape(-1, 1)), 'float64'))).reshape(-1),
             dtype=False)


def _reset_registries():
    base = {key: False for key in ['xnp', 'shape', 'dtype', 'device', 'annotations']}
    seen = set()

    def rec(cls):
        if cls in seen:
            return
        seen.add(cls)
        if "_dynamic" in vars(cls):
            cls._dynamic = dict(base)
        for sub in cls.__subclasses__():
            rec(sub)

    rec(cola.ops.LinearOperator)
    cola.ops.LinearOperator._dynamic = dict(base)


def case_registry(T, first, then):
    """flatten of `then` must expose its array parameters whatever was instantiated before (`first`) in the same interpreter"""
    _reset_registries()
    dt = F8
    M, N = T.arr("M", (2, 2), dt), T.arr("N", (2, 2), dt)
    I = ops.Identity((2, 2), np.dtype(dt))
    makers = {
        "kron(I,I)": lambda: ops.Kronecker(I, I), "I+I": lambda: I + I, "I@I*": lambda: ops.Product(I, I), "bd(I)": lambda: ops.BlockDiag(I, I),
        "sliced-slices": lambda: ops.Dense(M)[0:2, 0:1], "sliced-arrays": lambda: ops.Dense(M)[np.array([1, 0]), np.array([0])],
        "sum(D,D)": lambda: ops.Dense(M) + ops.Dense(N), "prod(D,D)": lambda: ops.Dense(M) @ ops.Dense(N), "kron(D,D)": lambda: ops.Kronecker(ops.Dense(M), ops.Dense(N)),
        "bd(D,D)": lambda: ops.BlockDiag(ops.Dense(M), ops.Dense(N)), "scalar*D": lambda: 2.0 * ops.Dense(M), "T(tridiag)": lambda: ops.Transpose(ops.Dense(M) + ops.Dense(N)),
        "generic": lambda: cola.no_dispatch(ops.Dense(M)), "none": lambda: None,
    }
    try:
        for f in first:
            makers[f]()
        A = makers[then]()
        leaves, unflatten = A.flatten()
        params = _arrays_of(A)
        fl = [p for p in params if p.dtype.kind in "fc"]
        T.check(f"{then} after {first}: float array parameters are leaves", all(any(l is p for l in leaves) for p in fl), f"{len(leaves)} leaves for {len(fl)} float array parameters")
        T.check(f"{then} after {first}: every array parameter is a leaf", all(any(l is p for l in leaves) for p in params), f"{len(leaves)} leaves for {len(params)} array parameters")
        B = unflatten(leaves)
        T.eq(f"{then} after {first}: round trip", B.to_dense(), A.to_dense(), dtype=False)
        if fl:
            new = T.arr("Sub", tuple(fl[0].shape), fl[0].dtype)
            i = next(j for j, l in enumerate(leaves) if l is fl[0])
            Bi = unflatten([new if j == i else x for j, x in enumerate(leaves)])
            T.check(f"{then} after {first}: substitution reaches the operator", any(l is new for l in Bi.flatten()[0]))
    finally:
        _reset_registries()


def cases(tier, seed):
    out = []
    # (a) all sequences of length 1, and of length 2 with a rotating sample (quick) / all (thorough is large: sample by seed)
    for a in ALPHABET:
        out.append((f"seq:{a}", case_sequence, dict(seq=[a])))
    pairs = list(itertools.product(ALPHABET, repeat=2))
    step = 9 if tier == "quick" else 2
    for i, (a, b) in enumerate(pairs):
        if (i + seed) % step == 0:
            out.append((f"seq:{a}|{b}", case_sequence, dict(seq=[a, b])))
    if tier == "thorough":
        triples = list(itertools.product(ALPHABET, repeat=3))
        for i, t in enumerate(triples):
            if (i + seed) % 211 == 0:
                out.append((f"seq:{'|'.join(t)}", case_sequence, dict(seq=list(t))))
    for name in ("eig(Arnoldi)", "eig(Lanczos)", "sqrt(Arnoldi)", "exp(Lanczos)", "svd(Lanczos)", "pinv(CG)", "inv(CG)", "inv(GMRES)", "diag(Auto)", "logdet(Lanczos)",
                 "pinv(Auto)", "pinv(default)", "inv(Auto)", "inv(default)", "eig(Auto)", "svd(Auto)", "sqrt(Auto)", "logdet(default)", "trace(Auto)"):
        out.append((f"alg:{name}", case_alg_object, dict(name=name), dict(validate=True)))
    # (b)
    trees = [["dense", 2, 3, F8], ["dense", 2, 2, C16], ["tri", 2, 1, F8], ["diag", 3, F8], ["scalar", 2, F8], ["identity", 2, F8], ["tridiag", 3, F8], ["perm", [1, 2, 0], F8],
             ["householder", 2, F8], ["product", ["dense", 2, 3, F8], ["dense", 3, 2, F8]], ["sum", ["dense", 2, 2, F8], ["diag", 2, F8]],
             ["kron", ["dense", 2, 1, F8], ["diag", 2, F8]], ["kronsum", ["dense", 2, 2, F8], ["diag", 2, F8]], ["blockdiag", [["dense", 1, 2, F8], ["diag", 2, F8]], [2, 1]],
             ["transpose", ["tridiag", 2, F8]], ["adjoint", ["tridiag", 2, C16]], ["sliced", ["dense", 3, 3, F8], ["s", 1, None, None], ["s", None, 2, None]],
             ["sliced", ["dense", 3, 3, F8], ["i", [2, 0]], ["s", None, None, None]], ["concat", [["dense", 2, 2, F8], ["dense", 1, 2, F8]], 0],
             ["generic", ["dense", 2, 2, F8]], ["selfadj", 2, C16], ["psd", 2, F8], ["kron", ["psd", 2, F8], ["selfadj", 2, C16]],
             ["product", ["scalar", 2, F8], ["sum", ["dense", 2, 2, F8], ["identity", 2, F8]]], ["kernel", 3, 2, 2, 2, F8], ["fft", 4, C16]]
    for t in trees:
        out.append((f"flat:{tree_name(t)}", case_flatten, dict(tree=t)))
        out.append((f"flat-used:{tree_name(t)}", case_flatten, dict(tree=t, use_first=True)))
    firsts = [[], ["kron(I,I)", "I+I", "I@I*", "bd(I)"], ["sliced-slices"], ["sliced-arrays"], ["generic"], ["sum(D,D)", "kron(D,D)"]]
    thens = ["sum(D,D)", "prod(D,D)", "kron(D,D)", "bd(D,D)", "scalar*D", "sliced-slices", "sliced-arrays", "T(tridiag)", "generic"]
    for f in firsts:
        for t in thens:
            out.append((f"reg:{'+'.join(f) or 'fresh'}->{t}", case_registry, dict(first=f, then=t)))
    return out


BOUNDS = dict(mutation="57-operation alphabet on a pool of 19 operators and 13 caller-owned arrays; all single operations; every 9th ordered pair (rotated by "
              "VERIF_SEED; every 2nd in thorough) and a sample of triples in thorough", flatten="26 operator trees (every kind); leaf substitution for every float "
              "leaf", registry="6 instantiation histories x 9 operators in a registry reset to the fresh-interpreter state", values="all payloads symbolic")
BOUNDS["added"] = "every option object alive before a call (shared default arguments included) is unchanged by it; operators that were used before they are flattened; an operator rebuilt from another operator's parameters represents that operator"

"""C14 — Lanczos returns an orthonormal Krylov basis and the projected tridiagonal matrix.

(A, v) := (Q T Q^H, s Q e1) with a concrete rational orthogonal / unitary Q (symbolic Cayley rotation for n = 2) and
symbolic alpha_j, beta_j > 0, s > 0, tol > 0.  The real `lanczos` / `lanczos_fact` / `lanczos_eigs` run on it; on every
explored path (each stopping index is one path; completeness of the exploration is a solver query) the returned Q, T must
equal the parameters truncated at the number of returned columns, which gives orthonormality, first column, span,
Q^H A Q = T and the residual structure; these are also asserted directly from the outputs."""
import numpy as np

import cola
from cola.linalg.decompositions.lanczos import lanczos, lanczos_eigs

from . import krylov as K

PROPERTY = "C14"
OPTS = {
    "quick": dict(max_paths=24, case_budget_s=150, flip_timeout_ms=8000),
    "thorough": dict(max_paths=64, case_budget_s=600, flip_timeout_ms=20000),
}
ASSUMPTIONS = [
    "inputs are all Hermitian A and start vectors with full Krylov data (alpha_j, beta_j > 0, s > 0 symbolic) expressed in the listed "
    "orthonormal bases: concrete generic rational Cayley bases (2 per size) for n >= 3, all rotations of the plane for n = 2",
    "early termination is modelled by an exact zero beta_j (invariant subspace) and by the symbolic tolerance test",
    "lanczos_eigs: Krylov dimension <= 2 (symbolic T = P diag(w) P^T) or diagonal T; larger T need an eigensolver model",
]


def phase_basis(T, n, dt='complex128'):
    """diag(1, i, (3+4i)/5, (-4+3i)/5): a unitary basis whose first vector is real (complex Hermitian operators with a real start vector)"""
    from fractions import Fraction as F_
    ph = [(F_(1), F_(0)), (F_(0), F_(1)), (F_(3, 5), F_(4, 5)), (F_(-4, 5), F_(3, 5)), (F_(0), F_(-1))][:n]
    z = K.S(T, 0)
    return K.mat(T, [[K.cst(T, *ph[i]) if i == j else z for j in range(n)] for i in range(n)], dt)


def _setup(T, n, variant, complex_, zero_at, cayley2=False):
    dt = 'complex128' if complex_ else 'float64'
    if cayley2 and n == 2 and not complex_:
        Q = K.cayley2_symbolic(T, "t", flip=bool(variant), dtype=dt)
    elif variant == -2:
        Q = phase_basis(T, n, dt)
    else:
        Q = K.basis(T, n, variant, complex_, dt)
    al = [T.var(f"al{i}") for i in range(n)]
    be = [T.var(f"be{i}", positive=True) for i in range(n - 1)]
    if zero_at is not None and zero_at < n - 1:
        be[zero_at] = K.S(T, 0)
    s = T.var("s", positive=True)
    Tm = K.tridiag(T, al, be, n, dt)
    A = Q @ Tm @ np.conjugate(Q).T
    v = s * Q[:, 0]
    return dt, Q, al, be, s, Tm, A, v


def _check_factorisation(T, tag, Qd, Td, Q, Tm, A, n, max_iters, zero_at):
    k = Qd.shape[1]
    T.check(f"{tag}:columns<=min(max_iters,n)", 1 <= k <= min(max_iters, n), f"{k} columns, max_iters={max_iters}, n={n}")
    T.check(f"{tag}:T-shape", tuple(Td.shape) == (k, k), f"T {Td.shape} for {k} columns")
    if not (1 <= k <= n) or tuple(Td.shape) != (k, k):
        return k
    T.eq(f"{tag}:Q==Krylov-basis", Qd, Q[:, :k])
    T.eq(f"{tag}:T==projected", Td, Tm[:k, :k])
    # consequences, asserted directly from the outputs
    QH = np.conjugate(Qd).T
    T.eq(f"{tag}:Q^HQ==I", QH @ Qd, K.eye_like(T, k, Qd.dtype), dtype=False)
    T.eq(f"{tag}:Q^HAQ==T", QH @ A @ Qd, Td, dtype=False)
    Rres = A @ Qd - Qd @ Td
    if k > 1:
        T.eq(f"{tag}:AQ-QT-vanishes-except-last-col", Rres[:, :k - 1], K.zeros_like_mode(T, (n, k - 1), Qd.dtype), dtype=False)
    off = [Td[i + 1, i] for i in range(k - 1)]
    if off:
        T.true(f"{tag}:offdiag>=0", [o.real >= 0 if hasattr(o, 'real') else o >= 0 for o in off])
        T.eq(f"{tag}:T-symmetric", Td, np.conjugate(Td).T, dtype=False)
    if zero_at is not None and zero_at < n - 1:
        T.check(f"{tag}:stops-at-exhausted-Krylov-space", k <= zero_at + 1, f"{k} columns although beta_{zero_at} = 0")
    return k


def case_lanczos(T, n, max_iters, variant=0, complex_=False, zero_at=None, tol="sym", cayley2=False, via="function", real_start=False):
    dt, Q, al, be, s, Tm, A, v = _setup(T, n, variant, complex_, zero_at, cayley2)
    if real_start:
        # complex Hermitian operator (phase-diagonal basis), start vector s e_1 handed over with a real dtype
        assert variant == -2 and complex_
        v = K.mat(T, [[s if i == 0 else K.S(T, 0) for i in range(n)]], 'float64')[0]
    tolv = T.scalar("tol", 'float64', positive=True, form='py') if tol == "sym" else float(tol)
    if tol == "sym":
        T.assume(tolv < 1)
    Aop = cola.SelfAdjoint(cola.ops.Dense(A))
    if via == "function":
        Qc, Tc, info = lanczos(Aop, v, max_iters=max_iters, tol=tolv)
    else:
        Qc, Tc, info = cola.linalg.Lanczos(start_vector=v, max_iters=max_iters, tol=tolv)(Aop)
    Qd, Td = Qc.to_dense(), Tc.to_dense()
    k = _check_factorisation(T, "lanczos", Qd, Td, Q, Tm, A, n, max_iters, zero_at)
    if tol != "sym" and float(tol) == 0.0 and zero_at is None:
        # with tol = 0 nothing but an exhausted Krylov space (beta_j = 0) or the iteration cap ends the run
        T.check("lanczos: tol = 0 runs to min(max_iters, n) columns", k == min(max_iters, n), f"{k} columns, max_iters={max_iters}, n={n}")
    T.check("Q-is-operator", isinstance(Qc, cola.ops.LinearOperator) and isinstance(Tc, cola.ops.Tridiagonal))
    T.check("info-iterations", info.get("iterations") == k + 1, f"iterations={info.get('iterations')} columns={k}")


def case_two_calls(T, n, max_iters, same=False):
    """two factorisations of the same size, step count and dtype in one process (same=True: the very same operator and start vector twice); the
    results of the FIRST call are examined only after the second call has returned (they are lazy operators: nothing may be shared with later calls)"""
    dt = 'float64'
    outs, params = [], []
    for c in range(2):
        if same and c == 1:
            outs.append(lanczos(cola.SelfAdjoint(cola.ops.Dense(A)), v, max_iters=max_iters, tol=1e-9))
            params.append((Q, Tm, A))
            break
        Q = K.basis(T, n, c, False, dt)
        pf = "" if c == 0 else "b"
        al = [T.var(f"{pf}al{i}") for i in range(n)]
        be = [T.var(f"{pf}be{i}", positive=True) for i in range(n - 1)]
        s = T.var(f"{pf}s", positive=True)
        for j in range(n - 1):
            T.assume(be[j] >= 1e-2)
            T.assume(be[j] <= 1e2)
        Tm = K.tridiag(T, al, be, n, dt)
        A = Q @ Tm @ Q.T
        v = s * Q[:, 0]
        outs.append(lanczos(cola.SelfAdjoint(cola.ops.Dense(A)), v, max_iters=max_iters, tol=1e-9))
        params.append((Q, Tm, A))
    for c in (0, 1):
        Qc, Tc, info = outs[c]
        Q, Tm, A = params[c]
        _check_factorisation(T, f"call {c + 1} (examined after both calls)", Qc.to_dense(), Tc.to_dense(), Q, Tm, A, n, max_iters, None)


def case_mixed_precision(T, n, max_iters):
    """float64 operator, start vector handed over in float32: the basis lives in the promoted dtype and is orthonormal to the accuracy of THAT dtype
    (in exact arithmetic this is the plain property; the float cross-run of each path, with v really rounded to float32, is what decides the
    rounding-level part: 1e-12, far below float32's 6e-8)"""
    dt, Q, al, be, s, Tm, A, v = _setup(T, n, 0, False, None)
    for j in range(n - 1):
        T.assume(be[j] >= 1e-1)
        T.assume(be[j] <= 1e1)
    T.assume(s >= 1e-1)
    T.assume(s <= 1e1)
    v32 = _vec(T, [v[i] for i in range(n)], 'float32')
    Qc, Tc, info = lanczos(cola.SelfAdjoint(cola.ops.Dense(A)), v32, max_iters=max_iters, tol=1e-9)
    Qd, Td = Qc.to_dense(), Tc.to_dense()
    k = Qd.shape[1]
    T.check("mixed precision: basis in the promoted dtype", np.dtype(Qd.dtype) == np.dtype('float64'), f"{Qd.dtype}")
    G = Qd.T @ Qd
    if T.sym:
        T.eq("mixed precision: Q^T Q == I", G, K.eye_like(T, k, 'float64'), dtype=False)
        T.eq("mixed precision: Q^T A Q == T", Qd.T @ A @ Qd, Td, dtype=False)
        T.eq("mixed precision: first column * ||v|| == v", Qd[:, 0] * s, v, dtype=False)
    else:
        v64 = np.asarray(v32, dtype=np.float64)
        T.true("mixed precision: Q^T Q == I", [bool(np.abs(np.asarray(G) - np.eye(k)).max() <= 1e-12)])
        T.true("mixed precision: Q^T A Q == T", [bool(np.abs(np.asarray(Qd.T @ A @ Qd - Td)).max() <= 1e-11 * max(1.0, float(np.abs(A).max())))])
        # (the first column agrees with v / ||v|| only to the precision v was handed over in: the library normalises once in v's own dtype)
        T.true("mixed precision: first column * ||v|| == v", [bool(np.abs(np.asarray(Qd[:, 0]) - v64 / np.linalg.norm(v64)).max() <= 1e-6)])


def case_eigs(T, n, max_iters, variant=0, zero_all=False):
    """lanczos_eigs: Ritz pairs in ascending order.  n = 2 with symbolic T = P diag(w) P^T, or diagonal T (all beta = 0 is not
    reachable from a generic start vector, so: start vector = eigenvector, Krylov dimension 1)"""
    dt = 'float64'
    if n == 2 and not zero_all:
        Q = K.basis(T, 2, variant, False, dt)
        P = K.cayley2_symbolic(T, "p", flip=False, dtype=dt)
        w0 = T.var("w0")
        gap = T.var("gap", positive=True)
        w = [w0, w0 + gap]
        Tm = P @ K.mat(T, [[w[0], K.S(T, 0)], [K.S(T, 0), w[1]]], dt) @ P.T
        s = T.var("s", positive=True)
        A = Q @ Tm @ Q.T
        v = s * Q[:, 0]
        # beta = Tm[1,0] must be positive for (A, v) to be in Lanczos form
        T.assume(Tm[1, 0] > 0)
        if T.sym:
            from symx import lapack
            lapack.register("eigh", K.raw(T, Tm), (K.raw(T, K.mat(T, [[w[0], w[1]]], dt))[0], K.raw(T, P)))
        vals, vecs, info = lanczos_eigs(cola.SelfAdjoint(cola.ops.Dense(A)), v, max_iters=max_iters, tol=1e-9)
        Vd = vecs.to_dense()
        T.eq("eigs:values-ascending-spectrum", vals, K.mat(T, [[w[0], w[1]]], dt)[0], dtype=False)
        T.eq("eigs:A V == V diag(w)", A @ Vd, Vd * vals[None, :], dtype=False)
        T.eq("eigs:V^T V == I", Vd.T @ Vd, K.eye_like(T, 2, dt), dtype=False)
    else:
        # start vector in a 2-dimensional invariant subspace of an n x n operator (beta_1 = 0): T = (P diag(w) P^T) (+) T_rest
        Q = K.basis(T, n, variant, False, dt)
        P = K.cayley2_symbolic(T, "p", flip=False, dtype=dt)
        w0 = T.var("w0")
        gap = T.var("gap", positive=True)
        w = [w0, w0 + gap]
        z = K.S(T, 0)
        T2 = P @ K.mat(T, [[w[0], z], [z, w[1]]], dt) @ P.T
        T.assume(T2[1, 0] > 0)
        rest_al = [T.var(f"al{i}") for i in range(2, n)]
        rest_be = [T.var(f"be{i}", positive=True) for i in range(2, n - 1)]
        rows = [[z for _ in range(n)] for _ in range(n)]
        for i in range(2):
            for j in range(2):
                rows[i][j] = _item(T, T2[i, j])
        for i in range(2, n):
            rows[i][i] = rest_al[i - 2]
        for i in range(2, n - 1):
            rows[i][i + 1] = rows[i + 1][i] = rest_be[i - 2]
        Tm = K.mat(T, rows, dt)
        s = T.var("s", positive=True)
        A = Q @ Tm @ Q.T
        v = s * Q[:, 0]
        if T.sym:
            from symx import lapack
            lapack.register("eigh", K.raw(T, T2), (K.raw(T, K.mat(T, [[w[0], w[1]]], dt))[0], K.raw(T, P)))
        vals, vecs, info = lanczos_eigs(cola.SelfAdjoint(cola.ops.Dense(A)), v, max_iters=max_iters, tol=1e-9)
        Vd = vecs.to_dense()
        T.check("eigs:two-ritz-pairs", tuple(vals.shape) == (2, ) and tuple(Vd.shape) == (n, 2), f"{vals.shape} {Vd.shape}")
        if tuple(vals.shape) == (2, ):
            T.eq("eigs:ritz-values-are-eigenvalues-ascending", vals, K.mat(T, [[w[0], w[1]]], dt)[0], dtype=False)
            T.eq("eigs:A V == V diag(w)", A @ Vd, Vd * vals[None, :], dtype=False)
            T.eq("eigs:V^T V == I", Vd.T @ Vd, K.eye_like(T, 2, dt), dtype=False)


def case_real_operator_complex_start(T, n, max_iters):
    """real symmetric A (concrete generic rationals) with a complex start vector s * d (symbolic scale, fixed complex direction): the Krylov
    basis is complex although the operator is real.  Obligations are stated on the outputs directly."""
    from fractions import Fraction as Fr
    dtA, dtv = 'float64', 'complex128'
    vals = {2: [[2, 1], [1, 3]], 3: [[2, 1, Fr(1, 2)], [1, 3, -1], [Fr(1, 2), -1, 1]]}[n]
    A = K.mat(T, [[K.cst(T, Fr(x)) for x in r] for r in vals], dtA)
    s = T.var("s", positive=True)
    d = [(Fr(1), Fr(1, 2)), (Fr(-1, 3), Fr(1)), (Fr(1, 2), Fr(-2, 3))][:n]
    v = K.mat(T, [[s * K.cst(T, re, im) for re, im in d]], dtv)[0]
    Qc, Tc, info = lanczos(cola.SelfAdjoint(cola.ops.Dense(A)), v, max_iters=max_iters, tol=1e-9)
    Qd, Td = Qc.to_dense(), Tc.to_dense()
    k = Qd.shape[1]
    T.check("columns<=min(max_iters,n)", 1 <= k <= min(max_iters, n), f"{k}")
    nv = np.sqrt((np.conjugate(v) @ v).real)
    T.eq("first column == v/||v||", Qd[:, 0] * nv, v, dtype=False)
    QH = np.conjugate(Qd).T
    T.eq("Q^HQ==I", QH @ Qd, K.eye_like(T, k, dtv), dtype=False)
    T.eq("Q^HAQ==T", QH @ A @ Qd, Td, dtype=False)
    T.eq("T is real", Td.imag if hasattr(Td, "imag") else 0 * Td, K.zeros_like_mode(T, (k, k), dtA), dtype=False)
    if k > 1:
        Rres = A @ Qd - Qd @ Td
        T.eq("AQ-QT vanishes except last column", Rres[:, :k - 1], K.zeros_like_mode(T, (n, k - 1), dtv), dtype=False)


def case_batched(T, n, max_iters, variant=0, mode="scales"):
    """two start vectors in one call (needs the pytree vmap stand-in)"""
    dt = 'float64'
    if mode == "scales":
        # same Krylov data, unrelated scales
        _, Q, al, be, s, Tm, A, v = _setup(T, n, variant, False, None)
        s2 = T.var("s2", positive=True)
        V = np.stack([s * Q[:, 0], s2 * Q[:, 0]], axis=1) if not T.sym else _stack_cols(T, [s * Q[:, 0], s2 * Q[:, 0]], dt)
        exp = [(Q, Tm), (Q, Tm)]
        stop = [None, None]
    else:
        # A = A1 (+) A2 conjugated by one basis; one start vector per block: independent Krylov parameters, different
        # termination indices in one batch (block sizes n1 < n2)
        n1, n2 = 1, n - 1
        Q = K.basis(T, n, variant, False, dt)
        al = [T.var(f"al{i}") for i in range(n)]
        z = K.S(T, 0)
        be = [T.var(f"be{i}", positive=True) for i in range(n - 1)]
        be[n1 - 1] = z
        Tm = K.tridiag(T, al, be, n, dt)
        A = Q @ Tm @ Q.T
        s, s2 = T.var("s", positive=True), T.var("s2", positive=True)
        if variant < 0:
            for x in [s, s2] + [b_ for j_, b_ in enumerate(be) if j_ != n1 - 1]:
                T.assume(x >= 1e-2)
                T.assume(x <= 1e2)
        V = _stack_cols(T, [s * Q[:, 0], s2 * Q[:, n1]], dt)
        exp = [(Q[:, :n1], Tm[:n1, :n1]), (Q[:, n1:], Tm[n1:, n1:])]
        stop = [n1, n2]
    Qb, Tb, info = lanczos(cola.SelfAdjoint(cola.ops.Dense(A)), V, max_iters=max_iters, tol=1e-9)
    Qarr = Qb.A  # (batch, n, k)
    k = Qarr.shape[-1]
    T.check("batched:shapes", Qarr.shape[0] == 2 and Qarr.shape[1] == n and k <= min(max_iters, n), f"{Qarr.shape}")
    if mode == "blocks" and variant < 0:
        # the batch runs until the member with the largest Krylov space is done (identity basis: breakdowns are exact in floats too; the
        # assumed scales keep every beta_j / beta_0 far above tol)
        T.check("batched:columns == Krylov dimension of the longest member", k == min(max_iters, max(stop)), f"{k} columns, Krylov dimensions {stop}")
    for b in range(2):
        Qe, Te = exp[b]
        kb = min(k, Qe.shape[1])
        T.eq(f"batched[{b}]:Q-leading-columns", Qarr[b][:, :kb], Qe[:, :kb], dtype=False)
        diag_b = Tb.beta[b][:kb, 0]
        sub_b = Tb.alpha[b][:max(kb - 1, 0), 0]
        T.eq(f"batched[{b}]:T-diagonal", diag_b, np.stack([Te[i, i] for i in range(kb)]) if not T.sym else _vec(T, [Te[i, i] for i in range(kb)], dt),
             dtype=False)
        if kb > 1:
            T.eq(f"batched[{b}]:T-offdiagonal", sub_b, _vec(T, [Te[i + 1, i] for i in range(kb - 1)], dt), dtype=False)
        if mode == "blocks" and variant < 0 and kb < k:
            # the exhausted batch member is zero padded while the other one continues (identity basis: the breakdown is exact in floats too)
            T.eq(f"batched[{b}]:Q-padding-is-zero", Qarr[b][:, kb:], K.zeros_like_mode(T, (n, k - kb), dt), dtype=False)
            T.eq(f"batched[{b}]:T-diagonal-padding-is-zero", Tb.beta[b][kb:k, 0], K.zeros_like_mode(T, (k - kb, ), dt), dtype=False)
            T.eq(f"batched[{b}]:T-offdiagonal-padding-is-zero", Tb.alpha[b][kb - 1:k - 1, 0], K.zeros_like_mode(T, (k - kb, ), dt), dtype=False)


def _stack_cols(T, cols, dt):
    n = cols[0].shape[0]
    rows = [[c[i] for c in cols] for i in range(n)]
    return K.mat(T, [[_item(T, x) for x in r] for r in rows], dt)


def _vec(T, xs, dt):
    return K.mat(T, [[_item(T, x) for x in xs]], dt)[0]


def _item(T, x):
    if T.sym:
        from symx.array import SymArray
        if isinstance(x, SymArray):
            return x.raw.item()
        return x
    return complex(x) if np.iscomplexobj(x) else float(x)


def cases(tier, seed):
    out = []
    sizes = (2, 3, 4) if tier == "quick" else (2, 3, 4, 5, 6, 7)
    for n in sizes:
        for variant in ((0, 1) if tier == "quick" else (0, 1, 2, 3)):
            for m in sorted({1, 2, n - 1, n, n + 1, n + 3} - {0}):
                if variant == 1 and tier == "quick" and m not in (n, n + 1):
                    continue
                if variant >= 2 and m not in (n - 1, n, n + 1):
                    continue
                out.append((f"real:n{n}v{variant}m{m}", case_lanczos, dict(n=n, max_iters=m, variant=variant)))
        out.append((f"tol0:n{n}m{n + 3}", case_lanczos, dict(n=n, max_iters=n + 3, tol=0.0)))
        out.append((f"mixed-precision:n{n}m{n}", case_mixed_precision, dict(n=n, max_iters=n), dict(partial_ok=True)))
        out.append((f"two-calls:n{n}m{n}", case_two_calls, dict(n=n, max_iters=n), dict(partial_ok=True)))
        out.append((f"two-calls:n{n}m{n - 1}", case_two_calls, dict(n=n, max_iters=n - 1), dict(partial_ok=True)))
        out.append((f"two-calls-same:n{n}m{n}", case_two_calls, dict(n=n, max_iters=n, same=True), dict(partial_ok=True)))
        for m in (n, n + 2):
            out.append((f"fixedtol:n{n}m{m}", case_lanczos, dict(n=n, max_iters=m, tol=1e-7)))
            out.append((f"class:n{n}m{m}", case_lanczos, dict(n=n, max_iters=m, tol=1e-7, via="class")))
        for z in range(n - 1):
            # z = 0 (eigenvector start): in floating point beta_0 is rounding noise and the *relative* test never fires; that
            # rounding effect is outside the exact model, so these cases are not diffed against the float run
            vo = dict(validate=False) if z == 0 else {}
            out.append((f"exhaust:n{n}z{z}", case_lanczos, dict(n=n, max_iters=n + 1, zero_at=z), vo))
            out.append((f"exhaust-fixedtol:n{n}z{z}", case_lanczos, dict(n=n, max_iters=n, zero_at=z, tol=1e-7), vo))
    for n in ((2, 3) if tier == "quick" else (2, 3, 4)):
        for m in (1, n, n + 1):
            out.append((f"complex:n{n}m{m}", case_lanczos, dict(n=n, max_iters=m, complex_=True)))
        if n > 2:
            out.append((f"complex-exhaust:n{n}", case_lanczos, dict(n=n, max_iters=n, complex_=True, zero_at=n - 2, tol=1e-7)))
    for n, m in ((2, 2), (3, 2), (3, 3), (4, 4)):
        out.append((f"complex-operator-real-start:n{n}m{m}", case_lanczos, dict(n=n, max_iters=m, variant=-2, complex_=True, real_start=True, tol=1e-7)))
        out.append((f"complex-operator-real-start-class:n{n}m{m}", case_lanczos, dict(n=n, max_iters=m, variant=-2, complex_=True, real_start=True, tol=1e-7, via="class")))
    for n, m in ((2, 2), (3, 2), (3, 3)):
        out.append((f"real-operator-complex-start:n{n}m{m}", case_real_operator_complex_start, dict(n=n, max_iters=m)))
    for flip in (0, 1):
        for m in (1, 2, 3):
            out.append((f"cayley2:flip{flip}m{m}", case_lanczos, dict(n=2, max_iters=m, variant=flip, cayley2=True)))
    for variant in (0, 1):
        out.append((f"eigs2:v{variant}", case_eigs, dict(n=2, max_iters=2, variant=variant)))
        out.append((f"eigs2m5:v{variant}", case_eigs, dict(n=2, max_iters=5, variant=variant)))
    for n in (3, 4):
        out.append((f"eigs-invariant-subspace:n{n}", case_eigs, dict(n=n, max_iters=n, zero_all=True)))
    for n in (3, 4):
        for m in (2, n, n + 1):
            out.append((f"batched-scales:n{n}m{m}", case_batched, dict(n=n, max_iters=m, mode="scales")))
        out.append((f"batched-blocks:n{n}", case_batched, dict(n=n, max_iters=n, mode="blocks")))
        out.append((f"batched-blocks-exact:n{n}", case_batched, dict(n=n, max_iters=n, mode="blocks", variant=-1)))
    return out


BOUNDS = dict(
    quick="n in {2,3,4}; max_iters in {1, 2, n-1, n, n+1, n+3}; 2 rational orthogonal bases per size; complex Hermitian n in {2,3} with a "
    "rational unitary basis; symbolic plane rotation / reflection for n = 2; exhausted Krylov space at every index; symbolic and fixed tol; "
    "function and Lanczos() algorithm object; two batched start vectors (same Krylov data with unrelated scales; block-diagonal A with "
    "different termination indices); lanczos_eigs for Krylov dimension <= 2",
    thorough="adds n = 5 (real), n = 4 (complex), all max_iters for both bases",
    values="alpha_j, beta_j > 0, s > 0, 0 < tol < 1 symbolic; every stopping index is a path, path coverage checked by z3")
BOUNDS["added"] = 'two factorisations of the same size / step count in one process, examined after both calls Thorough tier: n <= 7, four rational bases per size.'

"""C08 — exact diag / trace return the true (off-)diagonal and trace.

diag(A, k, alg) for alg in {Exact(), Auto(), omitted} and *every* offset -n < k < n, and trace(A, alg), are run on
every square tree of the bound with symbolic payloads: structural rules (Dense, Identity, Diagonal, Sum, BlockDiag,
ScalarMul, Kronecker, KronSum) and the blocked probing of exact_diag / get_I_chunk_like (rule-less operators,
including sizes on both sides of the hard-coded block size 100 and not divisible by it)."""
import numpy as np

import cola
from cola.linalg import Auto
from cola.linalg.trace.diagonal_estimation import Exact

from .c01 import C8, C16, F4, F8
from .common import build, expected_arr, tree_name, tree_shape

PROPERTY = "C08"
OPTS = {
    "quick": dict(max_paths=4, case_budget_s=200, zdag=True),
    "thorough": dict(max_paths=4, case_budget_s=900, zdag=True),
}
ASSUMPTIONS = ["a structural rule may refuse an offset with AssertionError/NotImplementedError (allowed by the property); a rule-less operator may not",
               "the stochastic (Hutchinson) algorithm is C17's subject"]
STRUCTURAL_REFUSERS = ("blockdiag", "kron", "kronsum")


def _alg(name):
    return {"exact": Exact(), "auto": Auto(), "exact7": Exact(bs=7)}.get(name)


class _StochasticSelected(Exception):
    pass


def case_diag(T, tree, ks, algs):
    from symx.core import Inconclusive, PathAbort
    from symx.harness import CaseTimeout
    import importlib
    de = importlib.import_module("cola.linalg.trace.diagonal_estimation")
    orig = de.hutchinson_diag_estimate
    if T.sym:
        # the stochastic estimator is not executed symbolically here (C17): if Auto at its default tolerance selects it,
        # that is reported as a violation and confirmed by the float replay (which runs the real estimator)
        def _marker(*a, **k):
            raise _StochasticSelected()
        de.hutchinson_diag_estimate = _marker
    try:
        _case_diag(T, tree, ks, algs)
    finally:
        de.hutchinson_diag_estimate = orig


def _case_diag(T, tree, ks, algs):
    from symx.core import Inconclusive, PathAbort
    from symx.harness import CaseTimeout
    A, R = build(T, tree)
    n = A.shape[0]
    M = R.a
    may_refuse = _contains_refuser(tree)
    for an in algs:
        for k in ks:
            tag = f"diag(k={k},{an})"
            want = np.diag(M, k)
            try:
                got = cola.linalg.diag(A, k) if an == "omitted" else cola.linalg.diag(A, k, _alg(an))
            except (Inconclusive, PathAbort, CaseTimeout):
                raise
            except _StochasticSelected:
                T.check(tag, False, "the automatic default selected the stochastic estimator")
                continue
            except (AssertionError, NotImplementedError) as e:
                T.check(f"{tag}:refusal-allowed", may_refuse and k != 0, f"refused: {type(e).__name__}: {e}"[:200])
                continue
            except Exception as e:
                T.check(f"{tag}:!exception", False, f"{type(e).__name__}: {e}"[:300])
                continue
            T.eq(tag, got, expected_arr(T, want, R.dt))
        tag = f"trace({an})"
        try:
            got = cola.linalg.trace(A) if an == "omitted" else cola.linalg.trace(A, _alg(an))
            tot = 0
            for i in range(n):
                tot = tot + M[i, i]
            T.eq(tag, got, expected_arr(T, tot, R.dt))
        except _StochasticSelected:
            T.check(tag, False, "the automatic default selected the stochastic estimator")
        except (Inconclusive, PathAbort, CaseTimeout):
            raise
        except Exception as e:
            T.check(f"{tag}:!exception", False, f"{type(e).__name__}: {e}"[:300])


def case_auto_selection(T, n):
    """which algorithm the automatic default (no tolerance given) runs on a rule-less n x n operator: it must be the exact one for every size
    within the bound (its documented switch is tol < 1 / sqrt(10 n^2), i.e. n < 3.16e5 at the default 1e-6).  Both estimators are replaced by
    markers, the operator is never applied."""
    import importlib
    de = importlib.import_module("cola.linalg.trace.diagonal_estimation")
    o1, o2 = de.exact_diag, de.hutchinson_diag_estimate
    picked = []
    de.exact_diag = lambda A, k, bs, *a, **kw: picked.append("exact") or np.zeros(A.shape[0] - abs(k))
    de.hutchinson_diag_estimate = lambda A, k, *a, **kw: (picked.append("stochastic") or np.zeros(A.shape[0] - abs(k)), {})

    def never(X):
        raise AssertionError("operator applied")
    A = cola.ops.LinearOperator(np.dtype('float64'), (n, n), matmat=never)
    try:
        for tag, call in (("diag(A)", lambda: cola.linalg.diag(A)), ("diag(A, 1)", lambda: cola.linalg.diag(A, 1)),
                          ("diag(A, 0, Auto())", lambda: cola.linalg.diag(A, 0, cola.linalg.Auto())), ("trace(A)", lambda: cola.linalg.trace(A)),
                          ("trace(A, Auto())", lambda: cola.linalg.trace(A, cola.linalg.Auto())),
                          ("diag(A + A)", lambda: cola.linalg.diag(ops_sum(A)))):
            del picked[:]
            try:
                call()
            except Exception as e:
                T.check(f"{tag}:!exception", False, f"{type(e).__name__}: {e}"[:200])
                continue
            T.check(f"{tag}: automatic default runs the exact algorithm", picked and set(picked) == {"exact"}, f"ran {picked}")
    finally:
        de.exact_diag, de.hutchinson_diag_estimate = o1, o2


def case_view_then(T, n, k, first):
    """exact probing of an operator whose product hands back its operand (or a view of it), followed by exact probing of an unrelated rule-less
    operator of the same size and dtype in the same process: probe blocks must not be shared between calls in a way the first call can damage"""
    dt = np.dtype('float64')
    if first == "identity":
        V = cola.no_dispatch(cola.ops.Identity((n, n), dt))
        Vm = np.eye(n)
    else:
        V = cola.ops.LinearOperator(dt, (n, n), matmat=lambda X: X[::-1])
        Vm = np.eye(n)[::-1]
    B = T.arr("B", (n, n), 'float64')
    Bop = cola.ops.LinearOperator(dt, (n, n), matmat=lambda X: B @ X)
    from .common import rfrom
    Bm = rfrom(T, B)
    for rnd in (1, 2):
        for kk in (k, 0):
            T.eq(f"round {rnd}: diag(view-operator, {kk})", cola.linalg.diag(V, kk, Exact()), expected_arr(T, np.diag(Vm, kk), 'float64'), dtype=False)
            T.eq(f"round {rnd}: diag(B, {kk}) after the view operator", cola.linalg.diag(Bop, kk, Exact()), expected_arr(T, np.diag(Bm, kk), 'float64'), dtype=False)
        tot = 0
        for i in range(n):
            tot = tot + Bm[i, i]
        T.eq(f"round {rnd}: trace(B) after the view operator", cola.linalg.trace(Bop, Exact()), expected_arr(T, tot, 'float64'), dtype=False)
        T.eq(f"round {rnd}: trace(B) (automatic) after the view operator", cola.linalg.trace(Bop), expected_arr(T, tot, 'float64'), dtype=False)


def ops_sum(A):
    return cola.ops.Sum(A, A)


def _contains_refuser(tree):
    if not isinstance(tree, list):
        return False
    if tree and tree[0] in ("generic", "nodispatch"):
        return False
    if tree and tree[0] in STRUCTURAL_REFUSERS:
        return True
    return any(_contains_refuser(t) for t in tree[1:] if isinstance(t, list)) or (tree and tree[0] == "blockdiag")


def cases(tier, seed):
    out = []
    G = lambda t: ["generic", t]  # noqa
    small = []
    for dt in (F8, C16):
        for n in (1, 2, 3):
            small += [["dense", n, n, dt], ["diag", n, dt], ["scalar", n, dt], ["identity", n, dt], ["tridiag", n, dt], G(["dense", n, n, dt])]
    small += [["dense", 4, 4, F8], G(["dense", 5, 5, F8]), G(["tridiag", 6, F8]), ["tri", 3, 1, F8], ["perm", [1, 2, 0], F8], ["householder", 3, F8],
              ["dense", 3, 3, F4], ["diag", 3, C8]]
    comp = [["sum", ["dense", 3, 3, F8], ["diag", 3, F8]], ["sum", ["dense", 2, 2, F8], ["scalar", 2, F8], ["identity", 2, F8]],
            ["sum", ["diag", 3, C16], ["dense", 3, 3, F8]], ["sum", G(["dense", 3, 3, F8]), ["scalar", 3, F8]],
            ["sum", ["kron", ["dense", 2, 2, F8], ["dense", 1, 1, F8]], ["dense", 2, 2, F8]],
            ["product", ["dense", 3, 2, F8], ["dense", 2, 3, F8]], ["product", ["scalar", 3, F8], ["dense", 3, 3, F8]], ["product", ["diag", 2, F8], ["diag", 2, F8]],
            ["kron", ["dense", 2, 2, F8], ["dense", 2, 2, F8]], ["kron", ["dense", 2, 2, F8], ["diag", 3, F8]], ["kron", ["dense", 2, 2, F8], ["dense", 3, 3, F8], ["dense", 2, 2, C8]],
            ["kron", ["diag", 2, F8], ["identity", 2, F8], ["scalar", 2, F8]], ["kron", ["dense", 2, 3, F8], ["dense", 3, 2, F8]],
            ["kronsum", ["dense", 2, 2, F8], ["dense", 3, 3, F8]], ["kronsum", ["dense", 2, 2, F8], ["diag", 2, F8], ["dense", 2, 2, C8]],
            ["blockdiag", [["dense", 2, 2, F8], ["diag", 2, F8]], [2, 1]], ["blockdiag", [["dense", 1, 1, F8], ["scalar", 2, F8], ["identity", 1, F8]], [3, 1, 2]],
            ["blockdiag", [["kron", ["dense", 2, 2, F8], ["dense", 2, 2, F8]], ["dense", 2, 2, F8]], [1, 2]],
            ["blockdiag", [["dense", 2, 3, F8], ["dense", 3, 2, F8]], [1, 1]],
            ["transpose", ["dense", 3, 3, C8]], ["adjoint", ["dense", 3, 3, C16]], ["sliced", ["dense", 4, 4, F8], ["s", 1, None, None], ["s", None, 3, None]],
            G(["kron", ["dense", 2, 2, F8], ["dense", 3, 3, F8]]), ["nodispatch", ["sum", ["dense", 3, 3, F8], ["diag", 3, F8]]],
            ["sum", ["blockdiag", [["dense", 2, 2, F8]], [2]], ["kron", ["dense", 2, 2, F8], ["dense", 2, 2, F8]]],
            ["selfadj", 3, C16], ["psd", 3, F8]]
    # sums in which the same operator object occurs twice (A + A, A + B + A, built by the overloads and by the constructor)
    P32 = ["product", ["dense", 3, 2, F8], ["dense", 2, 3, F8]]
    comp += [["dupsum", "plus", ["dense", 3, 3, F8], None], ["dupsum", "plus", ["dense", 3, 3, F8], ["diag", 3, F8]], ["dupsum", "ctor", ["diag", 3, C16], ["dense", 3, 3, F8]],
             ["dupsum", "plus", P32, ["dense", 3, 3, F8]], ["dupsum", "ctor", G(["dense", 2, 2, F8]), None], ["dupsum", "plus", ["kron", ["dense", 2, 2, F8], ["dense", 2, 2, F8]], None],
             ["dupsum", "plus", ["sum", ["dense", 2, 2, F8], ["diag", 2, F8]], ["scalar", 2, F8]], ["dupsum", "plus", ["identity", 3, F8], ["tridiag", 3, F8]]]
    for t in small + comp:
        n = tree_shape(t)[0]
        out.append((f"all-k:{tree_name(t)}", case_diag, dict(tree=t, ks=list(range(-(n - 1), n)), algs=["exact", "auto", "omitted"])))
    # seeded random square trees of depth <= 3 (8 fixed samples, selected by VERIF_SEED mod 8): every offset, exact / automatic / omitted algorithm
    from .common import random_trees
    seen_r = set()
    for t in random_trees(3000 + seed % 8, 20 if tier == "quick" else 600, square=True):
        n = tree_shape(t)[0]
        if tree_name(t) in seen_r:
            continue
        seen_r.add(tree_name(t))
        out.append((f"r:{tree_name(t)}", case_diag, dict(tree=t, ks=list(range(-(n - 1), n)), algs=["exact", "omitted"])))
    # sizes around the probing block size (rule-less operators so that exact_diag runs); banded symbolic payload
    big = [(101, [0, 1, -1, 99, -99, 100, -100]), (205, [0, 1, -1, 100, -100, 204, -204, 105]), (100, [0, 1, -1, 99, -99]), (200, [0, -1, 100])]
    if tier == "quick":
        big = [(101, [0, 1, -100]), (205, [0, -1]), (100, [0, 99])]
    for n, ks in big:
        for k in ks:
            out.append((f"big:generic(tridiag{n})[k={k}]", case_diag, dict(tree=G(["tridiag", n, F8]), ks=[k], algs=["exact"]),
                        dict(validate=False)))
    out.append(("big:generic(tridiag130)[auto]", case_diag, dict(tree=G(["tridiag", 130, F8]), ks=[0], algs=["auto", "omitted"]), dict(validate=False)))
    out.append(("big:generic(tridiag320)[auto]", case_diag, dict(tree=G(["tridiag", 320, F8]), ks=[0], algs=["auto"]), dict(validate=False)))
    out.append(("big:sum(generic(tridiag130),scalar130)", case_diag,
                dict(tree=["sum", G(["tridiag", 130, F8]), ["scalar", 130, F8]], ks=[0, 1], algs=["exact"]), dict(validate=False)))
    for n in (101, 562, 563, 600, 1000, 4096, 100000, 300000):
        out.append((f"auto-selection:n{n}", case_auto_selection, dict(n=n)))
    if tier == "quick":
        out.append(("big:generic(tridiag200)[k=-1]", case_diag, dict(tree=G(["tridiag", 200, F8]), ks=[-1], algs=["exact"]), dict(validate=False)))
    for n, k, first in ((3, 1, "identity"), (3, -2, "identity"), (4, 0, "flip"), (3, 1, "flip"), (2, 0, "identity")):
        out.append((f"view-then:{first}:n{n}k{k}", case_view_then, dict(n=n, k=k, first=first)))
    out.append(("big:dense210", case_diag, dict(tree=["diag", 210, F8], ks=[0, 3], algs=["auto"]), dict(validate=False)))
    return out


BOUNDS = dict(
    trees="every leaf kind (n = 1..3, real and complex, + generic wrappers n <= 6) and 26 composites (Sum, Product, Kronecker with 2-3 factors, "
    "KronSum, BlockDiag with multiplicities and non-square blocks, Transpose, Adjoint, Sliced, annotated, nested)", offsets="all -n < k < n",
    algorithms="Exact(), Auto(), omitted", large="rule-less tridiagonal operators of size 100, 101, 130, 200, 205, 320 with symbolic bands and "
    "offsets {0, +-1, +-99, +-100, +-(n-1), 105} (subset in quick)", values="all payloads symbolic")
BOUNDS["added"] = 'sums in which one operator object occurs twice; exact probing of an operator that returns its operand (or a view) followed by probing of an unrelated operator of the same size'

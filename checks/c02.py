"""C02 — transpose, adjoint and left-multiplication agree with the represented matrix.

For every tree of the bound: A.T / A.H (through the real rewriting rules and the lazy Transpose/Adjoint
wrappers), all towers of .T/.H up to depth 3, left products x @ A / X @ A (explicit _rmatmat's and the
generic one through the linear_transpose stand-in) and right products of the towers are compared with
M^T, conj(M)^T, X M on symbolic payloads (real and complex, incl. true SelfAdjoint / PSD declarations)."""
import itertools

import numpy as np

import cola

from .c01 import C8, C16, F4, F8, depth1, leaves
from .common import Ref, build, expected, ref_H, ref_matmul, ref_T, rfrom, tree_name, tree_shape

PROPERTY = "C02"
OPTS = {
    "quick": dict(max_paths=8, case_budget_s=100, zdag=True),
    "thorough": dict(max_paths=16, case_budget_s=400, zdag=True),
}
ASSUMPTIONS = [
    "generic _rmatmat runs through the harness' linear_transpose (its definition: (f(I))^T @ duals), so what is verified on that "
    "path is the plumbing around it (X.T / out.T / conjugations / shapes / dtypes); every explicit _rmatmat is executed as is",
    "Sparse / Jacobian / Hessian outside (not constructible on the NumPy backend)",
]


def _tower(A, R, T, word):
    for ch in word:
        if ch == "T":
            A, R = A.T, ref_T(T, R)
        else:
            A, R = A.H, ref_H(T, R)
    return A, R


def case_tree(T, tree, words, left):
    A0, R0 = build(T, tree)
    m, n = A0.shape
    for word in words:
        A, R = _tower(A0, R0, T, word)
        tag = "A" + "".join("." + c for c in word)
        T.check(f"{tag}:shape", tuple(A.shape) == tuple(R.shape), f"{A.shape} vs {R.shape}")
        T.eq(f"{tag}:to_dense", A.to_dense(), expected(T, R), dtype=(len(word) <= 1))
        if len(word) <= 2:
            k = A.shape[1]
            X = T.arr(f"X{len(word)}{word}", (k, 2), "float64" if R.dt.kind != 'c' else "complex128")
            want = ref_matmul(T, R, Ref(rfrom(T, X), X.dtype))
            T.eq(f"{tag}@X", A @ X, expected(T, want), dtype=(len(word) <= 1))
    for kind, xdt in left:
        shp = {"vec": (m, ), "row2": (2, m)}[kind]
        X = T.arr(f"Y{kind}{np.dtype(xdt).char}", shp, xdt)
        Xr = Ref(rfrom(T, X.reshape((1, m) if kind == 'vec' else (2, m))), xdt)
        want = expected(T, ref_matmul(T, Xr, R0))
        if kind == "vec":
            want = want.reshape(-1)
        T.eq(f"{kind}[{np.dtype(xdt)}]@A", X @ A0, want)
        # left product with the transposed operator as well
        At, Rt = _tower(A0, R0, T, "T")
        Z = T.arr(f"Z{kind}{np.dtype(xdt).char}", (2, n) if kind == "row2" else (n, ), xdt)
        Zr = Ref(rfrom(T, Z.reshape((1, n) if kind == 'vec' else (2, n))), xdt)
        want = expected(T, ref_matmul(T, Zr, Rt))
        if kind == "vec":
            want = want.reshape(-1)
        T.eq(f"{kind}[{np.dtype(xdt)}]@A.T", Z @ At, want)


WORDS1 = ["T", "H"]
WORDS2 = ["".join(w) for k in (1, 2) for w in itertools.product("TH", repeat=k)]
WORDS3 = ["".join(w) for k in (1, 2, 3) for w in itertools.product("TH", repeat=k)]
LEFT = [["vec", F8], ["row2", F8]]
LEFTC = [["vec", C16], ["row2", C8], ["row2", F8]]


def cases(tier, seed):
    out = []

    def add(tree, words, left, tag=""):
        out.append((f"{tag}{tree_name(tree)}", case_tree, dict(tree=tree, words=words, left=left)))

    for dt in (F8, C16, C8, F4):
        for t in leaves(dt, sizes=(1, 2, 3)):
            if dt in (F8, C16) or tree_shape(t)[0] == 2 or tree_shape(t) == (2, 3):
                add(t, WORDS3 if dt in (F8, C16) else WORDS2, LEFTC if dt in (C16, C8) else LEFT, "d0:")
    add(["dense", 1, 9, C16], WORDS2, LEFTC, "d0:")
    for n in (1, 2, 4):
        add(["fft", n, C16], WORDS2, LEFTC, "d0:")
    add(["kernel", 3, 2, 2, 1, F8], WORDS2, LEFT, "d0:")
    # true declarations: complex Hermitian declared SelfAdjoint / PSD, wrapped so that no Dense rule pre-empts the
    # generic ones
    for n in (2, 3):
        for kind in ("selfadj", "psd"):
            for dt in (F8, C16):
                add([kind, n, dt], WORDS3, LEFTC if dt == C16 else LEFT, "ann:")
    pool = [["dense", 2, 3, F8], ["dense", 3, 2, C16], ["dense", 2, 2, C16], ["dense", 3, 3, F8], ["diag", 2, C16], ["diag", 3, F8],
            ["scalar", 2, C16], ["identity", 3, F8], ["tri", 2, 1, C16], ["tridiag", 3, C16], ["perm", [1, 2, 0], F8],
            ["householder", 2, C16], ["selfadj", 2, C16], ["psd", 2, C16]]
    for t in depth1(pool, rich=(tier == "thorough")):
        add(t, WORDS2, [["vec", C16], ["row2", F8]], "d1:")
    multi = [
        ["kron", ["dense", 2, 3, C16], ["dense", 3, 2, F8], ["dense", 2, 2, C16]],
        ["kronsum", ["dense", 2, 2, C16], ["dense", 3, 3, C16]],
        ["blockdiag", [["dense", 2, 3, C16], ["dense", 3, 2, C16]], [2, 2]],
        ["kron", ["selfadj", 2, C16], ["selfadj", 2, C16]],
        ["blockdiag", [["selfadj", 2, C16], ["psd", 2, C16]], [1, 2]],
        ["sum", ["selfadj", 2, C16], ["psd", 2, C16]],
        ["sum", ["selfadj", 2, F8], ["selfadj", 2, C16], ["selfadj", 2, F8]], ["sum", ["psd", 2, F8], ["psd", 2, C16], ["psd", 2, C16], ["psd", 2, F8]],
        ["product", ["scalar", 2, C16], ["selfadj", 2, C16]],
        ["sliced", ["selfadj", 3, C16], ["s", 0, 2, None], ["s", 0, 2, None]],
        ["sliced", ["selfadj", 3, C16], ["s", 0, 2, None], ["s", 1, 3, None]],
        ["transpose", ["selfadj", 2, C16]], ["adjoint", ["selfadj", 2, C16]],
        ["generic", ["selfadj", 2, C16]],
    ]
    for t in multi:
        add(t, WORDS3, LEFTC, "m:")
    # sums of three and more terms whose first / middle / last term hands its operand back unchanged (Identity, unit ScalarMul): an
    # accumulation that aliases the operand is only visible from the third term on; all-real data so that no conjugation pass copies
    isum = [
        ["sum", ["identity", 2, F8], ["dense", 2, 2, F8], ["dense", 2, 2, F8]],
        ["sum", ["identity", 3, F8], ["diag", 3, F8], ["tridiag", 3, F8], ["dense", 3, 3, F8]],
        ["sum", ["dense", 2, 2, F8], ["identity", 2, F8], ["dense", 2, 2, F8]],
        ["sum", ["identity", 2, F8], ["identity", 2, F8], ["dense", 2, 2, F8]],
        ["sum", ["identity", 2, C16], ["dense", 2, 2, C16], ["dense", 2, 2, F8]],
        ["sum", ["selfadj", 2, F8], ["identity", 2, F8], ["dense", 2, 2, F8]],
        ["product", ["identity", 2, F8], ["sum", ["identity", 2, F8], ["dense", 2, 2, F8], ["diag", 2, F8]]],
    ]
    for t in isum:
        add(t, WORDS2, LEFT + [["row2", C16]], "is:")
    # products of two wrappers of the same operator object (the A^T A / A^H A inference patterns and their look-alikes)
    for sub in (["tridiag", 2, C16], ["generic", ["dense", 2, 2, C16]], ["tridiag", 3, F8], ["generic", ["dense", 2, 3, C16]]):
        sq = tree_shape(sub)[0] == tree_shape(sub)[1]
        for w1 in ("I", "T", "H", "Tc", "Hc"):
            for w2 in ("I", "T", "H", "Tc", "Hc"):
                if (w1 == "I") == (w2 == "I") and not sq:
                    continue
                add(["pair", w1, w2, sub], WORDS2, [["vec", C16]], "p:")
    pool2 = [["kron", ["dense", 2, 1, C16], ["dense", 1, 2, F8]], ["product", ["dense", 2, 3, C16], ["dense", 3, 2, F8]],
             ["sum", ["dense", 2, 2, C16], ["diag", 2, F8]], ["transpose", ["dense", 2, 2, C16]], ["adjoint", ["tridiag", 2, C16]],
             ["sliced", ["dense", 3, 3, C16], ["s", 1, None, None], ["s", None, 2, None]], ["generic", ["dense", 2, 2, C16]],
             ["dense", 2, 2, C16], ["kron", ["selfadj", 1, C16], ["selfadj", 2, C16]]]
    d2 = depth1(pool2, rich=(tier == "thorough"))
    if tier == "quick":
        d2 = d2[seed % 2::2]
    for t in d2:
        add(t, WORDS2, [["vec", C16], ["row2", F8]], "d2:")
    # seeded random trees of depth <= 3 from the whole grammar (8 fixed samples, selected by VERIF_SEED mod 8), complex-heavy
    from .common import random_trees
    for t in random_trees(2000 + seed % 8, 40 if tier == "quick" else 1500, dtypes=("complex128", "complex64", "float32", "complex128")):
        add(t, WORDS2, [["vec", C16], ["row2", F8]], "r:")
    seen = set()
    uniq = []
    for c in out:
        if c[0] not in seen:
            seen.add(c[0])
            uniq.append(c)
    return uniq


BOUNDS = dict(
    trees="as C01 (leaf kinds x dtypes x sizes 1..3, depth-1 and depth-2 composites over complex pools, multi-factor "
    "Kronecker/KronSum/BlockDiag) plus true SelfAdjoint (X+X^H) and PSD (B^H B) declared leaves, real and complex, and their "
    "Kronecker / BlockDiag / Sum / scalar multiple / principal and non-principal slices / Transpose / Adjoint / generic wrappers",
    towers="all words over {.T,.H} of length <= 3 (<= 2 on composites)", left="1-D and 2 x m left operands, real and complex",
    values="all payloads symbolic")
BOUNDS["added"] = 'all-real sums of >= 3 terms with an Identity first / in the middle (an accumulation aliasing the left operand)'

"""C07 — slogdet / logdet equal the determinant's phase and log-magnitude.

slogdet(A, log_alg, trace_alg) is executed on structured and dense operator trees with symbolic payloads.  `log` is an
uninterpreted function: the returned log-magnitude is a linear form  sum_j c_j * log(a_j)  over generator symbols, which the
check exponentiates exactly (exp is injective):  P := prod_j a_j^{c_j}.  Obligations, for all payload values on each path
(LU pivoting and sign / abs decisions are path forks):  sign * P == det(M)  (cofactor determinant of the reference matrix),
P >= 0, |sign| == 1, and logdet == logabs."""
import numpy as np

import cola
from cola.linalg.decompositions.decompositions import LU, Cholesky

from . import krylov as K
from .c01 import C8, C16, F4, F8
from .common import build, tree_name, tree_shape

PROPERTY = "C07"
OPTS = {
    "quick": dict(max_paths=40, case_budget_s=200, flip_timeout_ms=8000, partial_ok=False, abs_gen=True),
    "thorough": dict(max_paths=200, case_budget_s=900, flip_timeout_ms=20000, abs_gen=True),
}
ASSUMPTIONS = [
    "log / exp are uninterpreted: the identity sign * exp(logabs) == det is checked in the exponentiated form sign * prod a_j^c_j == det, which is "
    "equivalent because exp is injective and the arguments a_j of log are proved positive on the path",
    "non-singular inputs: every diagonal / pivot / scalar met in a denominator is assumed non-zero (domain events)",
    "Lanczos / Arnoldi log algorithms with the exact trace: operators blockdiag(P diag(w0, w1) P^-1, r_2, ..) of size 2 and 3 with a positive symbolic "
    "spectrum (every unit vector has Krylov dimension <= 2; the projected matrices are served by the eigensolver stand-in); generic larger "
    "projected matrices and stochastic traces are outside",
]


def det_ref(T, M):
    n = M.shape[0]
    if T.sym:
        from symx.lapack import det_obj
        return det_obj(M)
    return np.linalg.det(np.asarray(M, dtype=complex))


def exponentiate(T, logabs):
    """exp of a linear form in log generators: returns (P as mode scalar, ok)"""
    if not T.sym:
        return np.exp(complex(np.asarray(logabs).item()).real), True
    from symx.core import C, E
    from symx.array import SymArray
    x = logabs.raw.item() if isinstance(logabs, SymArray) else logabs
    x = C(x)
    if not x.im.is_zero() or x.re.d:
        return None, False
    P = C(1)
    for m, c in x.re.n.t.items():
        if not m:
            if c != 0:
                return None, False
            continue
        if len(m) != 1 or m[0][1] != 1 or m[0][0] not in E.gen_args or E.gen_args[m[0][0]][0] != 'log':
            return None, False
        if c.denominator != 1:
            return None, False
        arg = E.gen_args[m[0][0]][1]
        k = int(c)
        P = P * (arg**k if k >= 0 else C(1) / arg**(-k))
    return P, True


def _item(T, x):
    if T.sym:
        from symx.array import SymArray
        from symx.core import C
        return C(x.raw.item()) if isinstance(x, SymArray) else C(x)
    return complex(np.asarray(x).item())


def check_slogdet(T, tag, A, M, call):
    from symx.core import Inconclusive, PathAbort
    from symx.harness import CaseTimeout
    try:
        sign, logabs = call()
    except (Inconclusive, PathAbort, CaseTimeout):
        raise
    except Exception as e:
        T.check(f"{tag}:!exception", False, f"{type(e).__name__}: {e}"[:300])
        return
    det = det_ref(T, M)
    P, ok = exponentiate(T, logabs)
    T.check(f"{tag}:logabs-is-a-log-form", ok, "log-magnitude is not a linear form in log(.) terms")
    if not ok:
        return
    sg = _item(T, sign)
    if T.sym:
        from symx.array import W
        T.eq(f"{tag}:sign*exp(logabs)==det", W(sg * P, 'complex128'), W(det, 'complex128'), dtype=False)
        T.eq(f"{tag}:|sign|==1", W(sg * sg.conjugate(), 'complex128'), W(P / P, 'complex128'), dtype=False)
        T.true(f"{tag}:exp(logabs)>0", [P.real > 0] if P.im.is_zero() else [False])
    else:
        T.eq(f"{tag}:sign*exp(logabs)==det", np.array(sg * P), np.array(complex(det)), dtype=False)
        T.eq(f"{tag}:|sign|==1", np.array(abs(sg)), np.array(1.0), dtype=False)


def case_tree(T, tree, algs, assume_nonsingular=False):
    A, R = build(T, tree)
    M = R.a
    if assume_nonsingular:
        # the property is about non-singular operators: paths on which a structural zero makes det(M) = 0 (zero pivots) are outside
        d = det_ref(T, M)
        if T.sym:
            from symx.core import C
            d = C(d)
            T.assume((d * d.conjugate()).real > 0)
    for an in algs:
        if an == "default":
            check_slogdet(T, "slogdet()", A, M, lambda: cola.linalg.slogdet(A))
            # the operator is a persistent value: asking again gives the same answer (and the matrix it represents is still M)
            check_slogdet(T, "slogdet() again", A, M, lambda: cola.linalg.slogdet(A))
        elif an == "LU":
            check_slogdet(T, "slogdet(LU)", A, M, lambda: cola.linalg.slogdet(A, LU()))
        elif an == "logdet":
            def call():
                s, l = cola.linalg.slogdet(A)
                l2 = cola.linalg.logdet(A)
                T.eq("logdet==logabs", l2, l, dtype=False)
                return s, l
            check_slogdet(T, "logdet()", A, M, call)


def case_psd(T, n, complex_, alg, wrap="dense"):
    """A := L L^H (onto all Hermitian positive definite matrices), declared PSD"""
    dt = 'complex128' if complex_ else 'float64'
    z = K.S(T, 0)
    rows = [[z for _ in range(n)] for _ in range(n)]
    for i in range(n):
        for j in range(i + 1):
            if i == j:
                rows[i][j] = T.var(f"l{i}{j}", positive=True)
            else:
                rows[i][j] = T.var(f"l{i}{j}") if not complex_ else _c(T, f"l{i}{j}")
    L = K.mat(T, rows, dt)
    Am = L @ np.conjugate(L).T
    A = cola.PSD(cola.ops.Dense(Am))
    if wrap == "kron":
        d = T.arr("d", (2, ), dt if not complex_ else 'float64', positive=True)
        A = cola.ops.Kronecker(A, cola.PSD(cola.ops.Diagonal(d)))
        Mfull = np.kron(K.raw(T, Am), np.diag(K.raw(T, d)))
    elif wrap == "sum":
        # PSD + PSD (a Sum: no structural slogdet rule, inherits PSD)
        d = T.arr("d", (n, ), 'float64', positive=True)
        A = A + cola.PSD(cola.ops.Diagonal(d))
        Mfull = K.raw(T, Am) + np.diag(K.raw(T, d))
    elif wrap == "nodispatch":
        A = cola.PSD(cola.no_dispatch(cola.ops.Dense(Am)))
        Mfull = K.raw(T, Am)
    else:
        Mfull = K.raw(T, Am)
    if alg == "LU":
        # an operator declared PSD may still be sent through the pivoted LU
        check_slogdet(T, "slogdet(LU)", A, Mfull, lambda: cola.linalg.slogdet(A, LU()))
        T.note({"A": str(type(A).__name__)})
    elif alg == "Cholesky":
        check_slogdet(T, "slogdet(Cholesky)", A, Mfull, lambda: cola.linalg.slogdet(A, Cholesky()))
    else:
        check_slogdet(T, "slogdet()", A, Mfull, lambda: cola.linalg.slogdet(A))


def krylov_block_operator(T, which, n, spectrum="any"):
    """A = blockdiag(P diag(w0, w1) P^-1, r_2, ...) with a symbolic rotation P (Lanczos) or a fixed non-orthogonal P (Arnoldi) and a positive
    symbolic spectrum.  Unit vectors e_0, e_1 have the 2-dimensional Krylov space of the leading block (projected matrices A_2 and J A_2 J, whose
    eigendecompositions are given to the eigensolver stand-in), e_i, i >= 2, a 1-dimensional one (zero-padded projected matrix).
    Returns (A as array, P, P^-1, w, rest)."""
    dt = 'float64'
    z, one = K.S(T, 0), K.S(T, 1)
    w = [T.var("w0", positive=True), T.var("w1", positive=True)]
    T.assume(w[0] >= 1e-3 * w[1])
    T.assume(w[1] >= 1e-3 * w[0])
    if which == "lanczos":
        Pm = K.cayley2_symbolic(T, "p")
        Pinv = Pm.T
        T.assume(w[1] - w[0] >= 1e-3)
    else:
        from fractions import Fraction as Fr
        Pm = K.mat(T, [[K.S(T, 1), K.S(T, -2)], [K.S(T, 1), K.S(T, 3)]], dt)
        Pinv = K.mat(T, [[K.cst(T, Fr(3, 5)), K.cst(T, Fr(2, 5))], [K.cst(T, Fr(-1, 5)), K.cst(T, Fr(1, 5))]], dt)
        T.assume(w[0] - w[1] >= 1e-3)
    if spectrum == "small":
        T.assume(w[0] <= 0.5)
        T.assume(w[1] <= 0.5)
    elif spectrum == "large":
        T.assume(w[0] >= 2)
        T.assume(w[1] >= 2)
    A2 = Pm @ K.mat(T, [[w[0], z], [z, w[1]]], dt) @ Pinv
    T.assume(A2[1, 0] >= 1e-2)
    T.assume(A2[0, 1] >= 1e-2)
    J = K.mat(T, [[z, one], [one, z]], dt)
    rest = [T.var(f"r{i}", positive=True) for i in range(2, n)]
    rows = [[z for _ in range(n)] for _ in range(n)]
    for i in range(2):
        for j in range(2):
            rows[i][j] = _item(T, A2[i, j]) if T.sym else float(A2[i, j])
    for i in range(2, n):
        rows[i][i] = rest[i - 2]
        # every eigenvalue well above the zero-padding mask of the Krylov matrix functions (relative to the largest of the same column)
        T.assume(rest[i - 2] >= 1e-3)
        if spectrum == "small":
            T.assume(rest[i - 2] <= 0.5)
    Am = K.mat(T, rows, dt)
    if T.sym:
        from symx import lapack
        kind = "eigh" if which == "lanczos" else "eig"
        wv = K.raw(T, K.mat(T, [w], dt))[0]
        lapack.register(kind, K.raw(T, A2), (wv, K.raw(T, Pm)))
        lapack.register(kind, K.raw(T, J @ A2 @ J), (wv, K.raw(T, J @ Pm)))
    return Am, Pm, Pinv, w, rest


def case_krylov_logdet(T, which, n, max_iters=None, logdet_too=False, spectrum="any"):
    """slogdet(A, Lanczos() | Arnoldi(), Exact()) on `krylov_block_operator`: the exact trace probes log(A) with the unit vectors"""
    Am, Pm, Pinv, w, rest = krylov_block_operator(T, which, n, spectrum)
    from cola.linalg.decompositions.decompositions import Arnoldi, Lanczos
    from cola.linalg.trace.diag_trace import Exact
    alg = Lanczos(max_iters=max_iters or n, tol=1e-9) if which == "lanczos" else Arnoldi(max_iters=max_iters or n, tol=1e-9)
    A = cola.PSD(cola.ops.Dense(Am)) if which == "lanczos" else cola.ops.Dense(Am)

    def call():
        s, l = cola.linalg.slogdet(A, alg, Exact())
        T.check(f"slogdet({which},Exact): the log-magnitude has a real dtype", np.dtype(getattr(l, "dtype", np.float64)).kind == 'f', f"{getattr(l, 'dtype', type(l))}")
        if logdet_too:
            T.eq("logdet==logabs", cola.linalg.logdet(A, alg, Exact()), l, dtype=False)
        if T.sym:
            from symx.array import W
            return s, W(np.array(_item(T, l).real, dtype=object), 'float64') if _item(T, l).im.is_zero() else l
        return s, l
    check_slogdet(T, f"slogdet({which},Exact)", A, K.raw(T, Am), call)


def _c(T, name):
    re, im = T.var(name + "_re"), T.var(name + "_im")
    if T.sym:
        from symx.core import Sym
        return Sym(re.re, im.re)
    return complex(re, im)


def cases(tier, seed):
    out = []

    def add(tree, algs=("default", ), tag="", opts=None):
        kw = dict(tree=tree, algs=list(algs))
        if tag == "r:":
            kw["assume_nonsingular"] = True
        c = (f"{tag}{tree_name(tree)}", case_tree, kw)
        out.append(c + ((opts, ) if opts else ()))

    for dt in (F8, C16):
        for n in (1, 2, 3):
            add(["diag", n, dt], ("default", "LU", "logdet"), "s:")
            add(["scalar", n, dt], ("default", "LU"), "s:")
            add(["identity", n, dt], ("default", ), "s:")
            add(["tri", n, 1, dt], ("default", "LU"), "s:")
            add(["tri", n, 0, dt], ("default", ), "s:")
    for p in ([0], [1, 0], [0, 1], [1, 2, 0], [2, 1, 0], [0, 2, 1], [1, 0, 2], [2, 0, 1], [1, 0, 3, 2], [1, 2, 3, 0], [0, 1, 3, 2]):
        add(["perm", p, F8], ("default", "LU"), "s:")
    comp = [["product", ["diag", 2, F8], ["tri", 2, 1, F8]], ["product", ["scalar", 2, F8], ["diag", 2, F8], ["perm", [1, 0], F8]],
            ["product", ["dense", 2, 2, F8], ["diag", 2, F8]], ["product", ["scalar", 3, F8], ["tri", 3, 0, F8]],
            ["kron", ["diag", 2, F8], ["tri", 3, 1, F8]], ["kron", ["diag", 2, C16], ["tri", 2, 1, C16]], ["kron", ["scalar", 2, F8], ["diag", 3, F8]],
            ["kron", ["perm", [1, 0], F8], ["diag", 3, F8]], ["kron", ["perm", [1, 0], F8], ["diag", 2, F8]], ["kron", ["diag", 2, F8], ["diag", 2, F8], ["tri", 2, 1, F8]],
            ["kron", ["dense", 2, 2, F8], ["diag", 2, F8]],
            ["blockdiag", [["diag", 2, F8], ["tri", 2, 1, F8]], [2, 1]], ["blockdiag", [["scalar", 1, F8], ["perm", [1, 0], F8]], [3, 1]],
            ["blockdiag", [["perm", [1, 0], F8], ["diag", 1, C16]], [3, 2]], ["blockdiag", [["dense", 2, 2, F8]], [2]],
            ["product", ["kron", ["diag", 2, F8], ["diag", 2, F8]], ["blockdiag", [["tri", 2, 1, F8]], [2]]],
            ["kron", ["blockdiag", [["diag", 1, F8], ["scalar", 1, F8]], [1, 1]], ["tri", 2, 0, F8]],
            ["sum", ["diag", 2, F8], ["diag", 2, F8]], ["transpose", ["tri", 2, 1, F8]], ["product", ["dense", 2, 3, F8], ["dense", 3, 2, F8]],
            ["tridiag", 3, F8], ["generic", ["diag", 2, F8]], ["product", ["diag", 2, F8], ["dense", 2, 3, F8], ["dense", 3, 2, F8]],
            ["product", ["dense", 2, 3, F8], ["dense", 3, 3, F8], ["dense", 3, 2, F8]]]
    for t in comp:
        add(t, ("default", ), "c:")
    for n in (1, 2, 3):
        add(["dense", n, n, F8], ("default", "LU", "logdet") if n < 3 else ("default", ), "d:", dict(max_paths=120 if n == 3 else 40, partial_ok=(n == 3)))
    add(["dense", 2, 2, C16], ("default", ), "d:", dict(partial_ok=True))
    for n in (1, 2, 3):
        for cx in (False, True):
            if n == 3 and cx and tier == "quick":
                continue
            out.append((f"psd:n{n}{'c' if cx else ''}", case_psd, dict(n=n, complex_=cx, alg="default")))
            out.append((f"psd-chol:n{n}{'c' if cx else ''}", case_psd, dict(n=n, complex_=cx, alg="Cholesky")))
    out.append(("psd-kron:n2", case_psd, dict(n=2, complex_=False, alg="default", wrap="kron")))
    for n, cx, wrap in ((1, False, "dense"), (2, False, "dense"), (2, True, "dense"), (2, False, "sum"), (2, True, "sum"), (2, False, "nodispatch"), (2, False, "kron")):
        out.append((f"psd-LU:{wrap}:n{n}{'c' if cx else ''}", case_psd, dict(n=n, complex_=cx, alg="LU", wrap=wrap), dict(partial_ok=True)))
    out.append(("psd-sum:n2", case_psd, dict(n=2, complex_=False, alg="default", wrap="sum")))
    out.append(("psd-chol-sum:n2c", case_psd, dict(n=2, complex_=True, alg="Cholesky", wrap="sum")))
    for which in ("lanczos", "arnoldi"):
        for n, m, sp in ((2, None, "any"), (2, None, "small"), (2, None, "large"), (3, None, "any"), (3, None, "small"), (2, 4, "small"), (3, 5, "any")):
            out.append((f"krylov:{which}:n{n}" + (f"m{m}" if m else "") + f":{sp}", case_krylov_logdet,
                        dict(which=which, n=n, max_iters=m, logdet_too=(n == 2 and not m), spectrum=sp), dict(abs_gen=False, max_paths=60)))
    return out


BOUNDS = dict(
    trees="Diagonal / ScalarMul / Identity / Triangular (lower, upper) of size 1..3, real and complex; 11 permutations of both parities (size <= 4); "
    "22 composites (Product of square factors, Kronecker with unequal factor sizes and 3 factors, BlockDiag with multiplicities, nestings, Sum, "
    "Transpose, Tridiagonal, generic); dense general n <= 3 through the pivoted-LU stand-in (every pivot order is a path); dense Hermitian positive "
    "definite L L^H n <= 3 through Cholesky; Lanczos() / Arnoldi() with Exact() trace on block operators n in {2, 3}, max_iters n .. n + 2, spectra below one, "
    "above one and mixed", algorithms="default (Auto), LU(), Cholesky(), Lanczos(), Arnoldi(), logdet", values="all payloads symbolic")
BOUNDS["added"] = 'operators declared PSD sent through LU() (Dense, Sum, rule-less, Kronecker)'

"""C17 — randomised routines are deterministic in their key and estimate without bias.

NumPy's global random state is modelled as an uninterpreted state machine (symx/rng.py): the state before a cola call is a free constant s0
(= any history of user draws), Seed / Adv are uninterpreted.  For every randomised routine: (a) the final state term equals s0 for every
interpretation (z3 over uninterpreted functions), (b) no draw happens while the state is derived from s0, (c) two calls with the same key
return identical results.  Hutchinson: with symbolic probes (Rademacher probes are generators r with r^2 = 1) the estimate of the main diagonal
of a symbolic Diagonal operator is exact, and for a general symbolic operator the expectation (moment substitution E[z_a z_b] = delta_ab on the
output polynomial) equals the requested k-th diagonal; the loop never performs more than max_iters products."""
import numpy as np

import cola
from cola import ops

from . import krylov as K

PROPERTY = "C17"
OPTS = {
    "quick": dict(max_paths=24, case_budget_s=200, flip_timeout_ms=5000, partial_ok=True, validate=False),
    "thorough": dict(max_paths=64, case_budget_s=900, flip_timeout_ms=10000, partial_ok=True, validate=False),
}
ASSUMPTIONS = ["the statistical quality of the generator is not modelled; unbiasedness is E[estimate] == diagonal under E[z_a z_b] = delta_ab for a fixed "
               "number of probes (optional-stopping bias is outside)", "in the state-machine cases the drawn values are the real NumPy numbers of a mirrored private "
               "RandomState (the routines run on floats); the provenance of the state is symbolic"]


def _mods():
    import importlib
    return (importlib.import_module("cola.linalg.trace.diagonal_estimation"), importlib.import_module("cola.linalg.trace.diag_trace"))


def _routine(name, key):
    """returns a thunk running a randomised routine with the given key on float data; its result is a float array"""
    from cola.backends import np_fns
    rs = np.random.RandomState(0)
    n = 6
    B = rs.randn(n, n)
    Apsd = cola.PSD(ops.Dense(B @ B.T + n * np.eye(n)))
    Agen = ops.Dense(B + n * np.eye(n))
    de, dt_ = _mods()
    if name == "randn":
        return lambda: np_fns.randn(3, 2, dtype=np.float64, key=key)
    if name == "hutch-normal":
        return lambda: de.hutchinson_diag_estimate(Agen, k=0, tol=5e-2, max_iters=3, key=key)[0]
    if name == "hutch-rademacher-k1":
        return lambda: de.hutchinson_diag_estimate(Agen, k=1, tol=5e-2, max_iters=3, rand='rademacher', key=key)[0]
    if name == "diag(Hutch)":
        return lambda: dt_.diag(cola.no_dispatch(Agen), 0, de.Hutch(tol=5e-2, max_iters=2, key=key))
    if name == "trace(Hutch)":
        return lambda: np.asarray(dt_.trace(cola.no_dispatch(Agen), de.Hutch(tol=5e-2, max_iters=2, key=key)))
    if name == "diag(Auto object reused)":
        # the same algorithm object is handed to two calls (tol large enough for the stochastic estimator to be selected)
        alg = cola.linalg.Auto(tol=0.2, max_iters=2, key=key)
        return lambda: dt_.diag(cola.no_dispatch(Agen), 0, alg)
    if name == "trace(Auto object reused)":
        alg = cola.linalg.Auto(tol=0.2, max_iters=2, key=key)
        return lambda: np.asarray(dt_.trace(cola.no_dispatch(Agen), alg))
    if name == "lanczos-default-start":
        from cola.linalg.decompositions.lanczos import lanczos
        return lambda: lanczos(Apsd, max_iters=3, key=key)[0].to_dense()
    if name == "arnoldi-default-start":
        from cola.linalg.decompositions.arnoldi import arnoldi
        return lambda: arnoldi(Agen, max_iters=3, key=key)[0].to_dense()
    if name == "power-iteration":
        from cola.linalg.eig.power_iteration import power_iteration
        return lambda: power_iteration(Apsd, max_iter=5, key=key)[0]
    if name == "nystrom":
        import importlib
        pre = importlib.import_module("cola.linalg.preconditioning.preconditioners")
        return lambda: pre.NystromPrecond(Apsd, rank=3, key=key).U
    if name == "slq":
        import importlib
        slq = importlib.import_module("cola.linalg.tbd.slq")
        return lambda: np.asarray(slq.stochastic_lanczos_quad(Apsd, np.log, max_iters=4, tol=1e-6, vtol=0.7, key=key))
    if name == "randomized_svd":
        import importlib
        rsvd = importlib.import_module("cola.linalg.tbd.randomized_svd")
        return lambda: rsvd.randomized_svd(Agen, 3)[0]
    if name == "lobpcg":
        import importlib
        lob = importlib.import_module("cola.linalg.eig.lobpcg")
        return lambda: lob.lobpcg(cola.SelfAdjoint(ops.Dense((B @ B.T + n * np.eye(n)).astype(np.float32))), max_iters=3)[0]
    raise ValueError(name)


def case_state(T, name, key):
    """RNG state obligations; the routine itself runs on floats (with the vmap / linear_transpose additions)"""
    from symx import rng, shim
    if not T.sym:
        # replay on the real generator: snapshot the real global state around the calls
        from cola.backends import np_fns
        same, indep, ident, first, blocks_ok = True, True, True, None, True
        for prior in (0, 1, 2):
            # user histories before the call: none, an odd number of legacy normal draws (leaves a cached Gaussian in the state), an even number
            np.random.seed(2024 + 17 * prior)
            for _ in range(prior):
                np.random.randn()
            before = np.random.get_state()
            blocks = []
            orig_randn = np_fns.randn

            def rec(*a, **k):
                out = orig_randn(*a, **k)
                blocks.append(np.array(out, copy=True))
                return out
            np_fns.randn = rec
            try:
                thunk = _routine(name, key)
                r1 = np.array(thunk(), dtype=complex)
                n1 = len(blocks)
                r2 = np.array(thunk(), dtype=complex)
            finally:
                np_fns.randn = orig_randn
            after = np.random.get_state()
            same = same and before[0] == after[0] and np.array_equal(before[1], after[1]) and before[2:] == after[2:]
            ident = ident and r1.shape == r2.shape and bool(np.array_equal(r1, r2))
            if first is None:
                first = r1
            indep = indep and first.shape == r1.shape and bool(np.array_equal(first, r1))
            one = blocks[:n1]
            blocks_ok = blocks_ok and not any(a.shape == b.shape and a.size > 1 and np.array_equal(a, b) for i, a in enumerate(one) for b in one[i + 1:])
        T.check(f"{name}: global state restored (final state term == s0 for every Seed / Adv)", bool(same), "np.random.get_state() changed")
        T.check(f"{name}: never draws from the global state", bool(same and indep), "the result depends on the user's draws before the call")
        T.check(f"{name}: same key -> identical result", ident, "results differ between two calls with the same key")
        T.check(f"{name}: successive draws of one call start from different generator states", blocks_ok, "two probe blocks of one call are bit-identical")
        return
    was = shim.MODE["symbolic"]
    shim.symbolic(False)
    model = rng.RngModel("concrete")
    saved = rng.install(model)
    try:
        thunk = _routine(name, key)
        r1 = np.array(thunk(), dtype=complex)
        mid_restored = model.state_restored()
        first_call_terms = list(model.draw_terms)
        r2 = np.array(thunk(), dtype=complex)
        T.check(f"{name}: global state restored (final state term == s0 for every Seed / Adv)", mid_restored and model.state_restored(), model.term.sexpr()[:200])
        T.check(f"{name}: never draws from the global state", not model.global_draws, f"{model.global_draws[:3]}")
        T.check(f"{name}: same key -> identical result", r1.shape == r2.shape and bool(np.array_equal(r1, r2)), "results differ between two calls with the same key")
        T.check(f"{name}: draws something", model.ndraws > 0)
        dup = [t for i, t in enumerate(first_call_terms) if t in first_call_terms[:i]]
        T.check(f"{name}: successive draws of one call start from different generator states", not dup, f"state term drawn from twice: {dup[:1]}")
    finally:
        rng.uninstall(saved)
        shim.symbolic(was)


def _expect(T, arr, zvars):
    """E[.] of an array of polynomials of total degree <= 2 in independent standardised probes (odd moments 0, second moment 1)"""
    from symx.core import C, Sym
    from symx.terms import Poly, Rat
    from symx import terms
    zs = {terms.VIDX[n] for n in zvars}
    out = np.empty(arr.shape, dtype=object)
    for idx in np.ndindex(*arr.shape):
        x = C(arr[idx])
        assert not x.re.d and not x.im.d, "expectation of a non-polynomial"
        parts = []
        for part in (x.re, x.im):
          t = {}
          for m, c in part.n.t.items():
            keep = []
            zero = False
            for v, e in m:
                if v in zs:
                    if e % 2:
                        zero = True
                        break
                    if e > 2:
                        raise AssertionError("moment of order > 2")
                else:
                    keep.append((v, e))
            if zero:
                continue
            mm = tuple(keep)
            t[mm] = t.get(mm, 0) + c
          parts.append(Rat(Poly({m: c for m, c in t.items() if c})))
        out[idx] = Sym(parts[0], parts[1])
    return out


def case_hutch_symbolic(T, n, k, rand, kind, complex_=False):
    """symbolic probes: exactness on Diagonal with Rademacher probes; unbiasedness in general (real and complex operators: the estimate of a
    complex (off-)diagonal is that diagonal, not its conjugate)"""
    from symx import rng, shim
    de, dt_ = _mods()
    dt = 'complex128' if complex_ else 'float64'
    if kind == "diag":
        d = T.arr("d", (n, ), dt)
        A = ops.Diagonal(d)
        Mref = np.diag(K.raw(T, d)) if T.sym else np.diag(d)
    else:
        M = T.arr("M", (n, n), dt)
        A = ops.Dense(M)
        Mref = K.raw(T, M) if T.sym else M
    if not T.sym:
        # float replay on the real generator: exactness is deterministic; unbiasedness is tested statistically over 400 keys (6 sigma)
        want = np.diag(Mref, k) if complex_ else np.diag(Mref, k).real
        if kind == "diag" and rand == "rademacher" and k == 0:
            est, _ = de.hutchinson_diag_estimate(A, k=k, tol=5e-2, max_iters=1, rand=rand, key=3)
            T.eq("Rademacher probes: exact on a Diagonal operator", est, want.astype(est.dtype), dtype=False)
        else:
            ests = np.stack([de.hutchinson_diag_estimate(A, k=k, tol=5e-2, max_iters=1, rand=rand, key=1000 + j)[0] for j in range(400)])
            mean, se = ests.mean(0), ests.std(0, ddof=1) / np.sqrt(len(ests)) + 1e-12
            T.true(f"E[estimate] == diag(A, {k})", [bool(np.all(np.abs(mean - want) <= 6 * se))])
        return
    model = rng.RngModel("symbolic", T)
    saved = rng.install(model)
    from symx.core import E
    old_sign = E.__dict__.get("rademacher", False)
    E.rademacher = (rand == "rademacher")
    try:
        est, info = de.hutchinson_diag_estimate(A, k=k, tol=5e-2, max_iters=1, rand=rand, key=3)
    finally:
        E.rademacher = old_sign
        rng.uninstall(saved)
    want = np.diag(Mref, k)
    T.check("length", tuple(est.shape) == (n - abs(k), ), f"{est.shape}")
    zn = [terms_name for arr_ in model.memo.values() for terms_name in _names(T, arr_)]
    if kind == "diag" and rand == "rademacher" and k == 0:
        T.eq("Rademacher probes: exact on a Diagonal operator", est, K.arr(T, want, dt), dtype=False)
    else:
        Ex = _expect(T, K.raw(T, est), zn + _gen_names())
        T.eq(f"E[estimate] == diag(A, {k})", K.arr(T, Ex, dt), K.arr(T, want, dt), dtype=False)
    T.check("state restored", model.state_restored())
    T.check("no global draws", not model.global_draws)


def _names(T, arr):
    from symx import terms
    out = []
    for x in K.raw(T, arr).ravel():
        for v in x.re.n.vars():
            out.append(terms.VARS[v])
    return out


def _gen_names():
    from symx import terms
    return [n for n in terms.VARS if n.startswith("g!rad")]


def case_hutch_cap(T, max_iters, k, rand):
    """never more than max_iters products with the operator"""
    de, dt_ = _mods()
    from symx import shim
    was = shim.MODE["symbolic"]
    shim.symbolic(False)
    try:
        rs = np.random.RandomState(1)
        B = rs.randn(5, 5)
        cnt = [0]

        def mm(X):
            cnt[0] += 1
            return B @ X

        A = ops.LinearOperator(np.dtype('float64'), (5, 5), matmat=mm)
        est, info = de.hutchinson_diag_estimate(A, k=k, tol=1.1e-3, max_iters=max_iters, rand=rand, key=11)
        T.check(f"products <= max_iters ({max_iters})", cnt[0] <= max_iters, f"{cnt[0]} products with the operator")
        cnt[0] = 0
        dt_.diag(A, k, de.Hutch(tol=1.1e-3, max_iters=max_iters, rand=rand, key=5))
        T.check(f"diag(Hutch): products <= max_iters ({max_iters})", cnt[0] <= max_iters, f"{cnt[0]} products with the operator")
        # the automatic entry point with a tolerance that selects the stochastic estimator hands the cap on
        cnt[0] = 0
        dt_.diag(A, k, cola.linalg.Auto(tol=0.3, max_iters=max_iters, rand=rand, key=5))
        T.check(f"diag(Auto(tol, max_iters)): products <= max_iters ({max_iters})", cnt[0] <= max_iters, f"{cnt[0]} products with the operator")
        if k == 0:
            cnt[0] = 0
            dt_.trace(A, cola.linalg.Auto(tol=0.3, max_iters=max_iters, rand=rand, key=5))
            T.check(f"trace(Auto(tol, max_iters)): products <= max_iters ({max_iters})", cnt[0] <= max_iters, f"{cnt[0]} products with the operator")
    finally:
        shim.symbolic(was)


def cases(tier, seed):
    out = []
    for name in ("randn", "hutch-normal", "hutch-rademacher-k1", "diag(Hutch)", "trace(Hutch)", "lanczos-default-start", "arnoldi-default-start", "power-iteration",
                 "nystrom", "slq", "randomized_svd", "lobpcg", "diag(Auto object reused)", "trace(Auto object reused)"):
        for key in (None, 7, 123456789):
            if name in ("lobpcg", "randomized_svd") and key is not None:
                continue
            out.append((f"state:{name}:key={key}", case_state, dict(name=name, key=key)))
    for n in (2, 3):
        out.append((f"hutch-exact:diag{n}", case_hutch_symbolic, dict(n=n, k=0, rand="rademacher", kind="diag")))
        for k in ([0, 1, -1] if n == 2 else [0, 1, -1, 2, -2]):
            for rand in ("normal", "rademacher"):
                out.append((f"hutch-unbiased:n{n}k{k}:{rand}", case_hutch_symbolic, dict(n=n, k=k, rand=rand, kind="dense")))
                if n == 2 or k in (0, 1):
                    out.append((f"hutch-unbiased-complex:n{n}k{k}:{rand}", case_hutch_symbolic, dict(n=n, k=k, rand=rand, kind="dense", complex_=True)))
        out.append((f"hutch-exact-complex:diag{n}", case_hutch_symbolic, dict(n=n, k=0, rand="rademacher", kind="diag", complex_=True)))
    for m in (1, 2, 5, 17):
        for k in (0, 2, -1):
            for rand in ("normal", "rademacher"):
                out.append((f"hutch-cap:m{m}k{k}:{rand}", case_hutch_cap, dict(max_iters=m, k=k, rand=rand)))
    return out


BOUNDS = dict(routines="randn, hutchinson_diag_estimate (both probe kinds), diag / trace with Hutch(key), default start vectors of lanczos / arnoldi / power iteration, "
              "NystromPrecond, stochastic_lanczos_quad, randomized_svd, lobpcg, diag / trace with a reused Auto(tol, key) object; keys None / 7 / 123456789; "
              "float replay under three user histories of the global generator", hutchinson="symbolic operators n in {2,3}, all offsets, both probe "
              "distributions, one batch of n probes; iteration caps {1,2,5,17}", state="initial global state arbitrary (free constant), Seed / Adv uninterpreted")
BOUNDS["added"] = "complex operators (the estimate of a complex diagonal is that diagonal, not its conjugate; complex square root and NumPy's lexicographic complex ordering of the stopping rule are modelled)"

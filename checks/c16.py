"""C16 — svd and pinv return a valid singular value decomposition and the pseudo-inverse.

Inputs are generated from their SVD: A := U0 diag(sigma) V0^H with orthogonal / unitary U0 (m x m) and V0 (n x n) (symbolic plane rotation
for size 2, rational Cayley bases otherwise) and symbolic singular values in LAPACK's contract order (descending: sigma_i = sigma_{i+1} + gap).
Dense svd (DenseSVD() and the automatic default) must return orthonormal U, V and a non-negative diagonal Sigma with U Sigma V^H == A;
pinv(A) @ b (automatic default, LSTSQ(), structural rules) must equal V0 diag(1/sigma) U0^H b — the minimum-norm least-squares solution —
for tall, wide and square full-rank A."""
import numpy as np

import cola
from cola import ops

from . import krylov as K

PROPERTY = "C16"
OPTS = {
    "quick": dict(max_paths=24, case_budget_s=200, flip_timeout_ms=8000, partial_ok=True),
    "thorough": dict(max_paths=96, case_budget_s=900, flip_timeout_ms=20000, partial_ok=True),
}
ASSUMPTIONS = ["full-rank inputs given by their SVD (onto all matrices whose singular vectors are in the listed bases); LAPACK svd returns the registered "
               "factors with singular values descending; lstsq is the exact minimum-norm least-squares solution",
               "Lanczos SVD only for 2x3 / 3x2 operators with a start vector that puts the small Gram matrix in Lanczos form (Krylov dimension 2); LOBPCG SVD is outside; pinv through CG: right-hand sides of symbolic scale along fixed generic directions, well-scaled data (singular values and scales in [1e-2, 1e2], ||A^H b|| >= 1e-3 ||b||), rational bases for min(m, n) > 1"]


def _svdmod():
    import importlib
    return importlib.import_module("cola.linalg.svd.svd")


def _pinvmod():
    import importlib
    return importlib.import_module("cola.linalg.inverse.pinv")


def make(T, m, n, complex_, concrete_bases=False):
    dt = 'complex128' if complex_ else 'float64'
    r = min(m, n)

    def base(k, name, variant):
        if k == 1:
            return K.eye_like(T, 1, dt)
        if k == 2 and not complex_ and not concrete_bases:
            return K.cayley2_symbolic(T, name, flip=bool(variant), dtype=dt)
        return K.basis(T, k, variant, complex_, dt)

    U0, V0 = base(m, "u", 0), base(n, "v", 1)
    sig = [T.var(f"sg{r - 1}", positive=True)]
    T.assume(sig[0] >= 1e-2)
    for i in range(r - 2, -1, -1):
        g = T.var(f"gap{i}", positive=True)
        T.assume(g >= 1e-2)
        sig.insert(0, sig[0] + g)
    z = K.S(T, 0)
    S = K.mat(T, [[sig[i] if i == j else z for j in range(n)] for i in range(m)], dt)
    A = U0 @ S @ np.conjugate(V0).T
    if T.sym:
        from symx import lapack
        sv = K.raw(T, K.mat(T, [sig], 'float64'))[0]
        Uf, Vh = K.raw(T, U0), K.raw(T, np.conjugate(V0).T)
        lapack.register("svd", K.raw(T, A), {True: (Uf, sv, Vh), False: (Uf[:, :r], sv, Vh[:r, :])})
    return dt, A, U0, V0, sig, r


def case_svd(T, m, n, complex_, algs):
    dt, A, U0, V0, sig, r = make(T, m, n, complex_)
    S_ = _svdmod()
    Aop = ops.Dense(A)
    for an in algs:
        alg = {"Auto": cola.linalg.Auto(), "DenseSVD": S_.DenseSVD()}[an]
        U, Sg, V = S_.svd(Aop, r, "LM", alg)
        Ud, Sd, Vd = U.to_dense(), Sg.to_dense(), V.to_dense()
        tag = f"svd({an})"
        T.eq(f"{tag}:U Sigma V^H == A", Ud @ Sd @ np.conjugate(Vd).T, A, dtype=False)
        T.eq(f"{tag}:U^H U == I", np.conjugate(Ud).T @ Ud, K.eye_like(T, Ud.shape[1], dt), dtype=False)
        T.eq(f"{tag}:V^H V == I", np.conjugate(Vd).T @ Vd, K.eye_like(T, Vd.shape[1], dt), dtype=False)
        T.check(f"{tag}:Sigma-kind", type(Sg).__name__ == "Diagonal", type(Sg).__name__)
        T.true(f"{tag}:Sigma >= 0", [Sg.diag[i].real >= 0 for i in range(Sg.diag.shape[0])])
        T.check(f"{tag}:shapes", Ud.shape[0] == m and Vd.shape[0] == n and Sd.shape[0] == Ud.shape[1] and Sd.shape[1] == Vd.shape[1],
                f"U {Ud.shape} Sigma {Sd.shape} V {Vd.shape}")


def case_svd_lanczos(T, wide, complex_, k):
    """svd(A, k, which, Lanczos(start_vector=...)) on a 2 x 3 (wide) or 3 x 2 (tall) operator: the small Gram matrix is Q (R diag(sigma^2) R^T) Q^H
    with the start vector s Q e1, i.e. in Lanczos form with Krylov dimension 2; eigh of the projected 2 x 2 matrix is registered"""
    from cola.linalg.decompositions.decompositions import Lanczos
    dt = 'complex128' if complex_ else 'float64'
    Q = K.basis(T, 2, 0, complex_, dt)
    R = K.cayley2_symbolic(T, "r", dtype=dt)
    W3 = K.basis(T, 3, 1, complex_, dt)
    s1 = T.var("sg1", positive=True)
    g = T.var("gap", positive=True)
    T.assume(s1 >= 1e-1)
    T.assume(g >= 1e-1)
    sig = [s1, s1 + g]  # ascending (eigh order of the Gram matrix)
    z = K.S(T, 0)
    U2 = Q @ R
    S = K.mat(T, [[sig[i] if i == j else z for j in range(3)] for i in range(2)], dt)
    A = U2 @ S @ np.conjugate(W3).T
    if not wide:
        A = np.conjugate(A).T
    T2 = R @ K.mat(T, [[sig[0] * sig[0], z], [z, sig[1] * sig[1]]], dt) @ R.T
    T.assume(T2[1, 0].real >= 1e-3)
    sv = T.var("s", positive=True)
    T.assume(sv >= 1e-2)
    v = sv * Q[:, 0]
    if T.sym:
        from symx import lapack
        lapack.register("eigh", K.raw(T, T2), (K.raw(T, K.mat(T, [[sig[0] * sig[0], sig[1] * sig[1]]], 'float64'))[0], K.raw(T, R)))
    S_ = _svdmod()
    U, Sg, V = S_.svd(ops.Dense(A), k, "LM", Lanczos(start_vector=v, max_iters=2, tol=1e-9))
    Ud, Sd, Vd = U.to_dense(), Sg.to_dense(), V.to_dense()
    tag = f"svd(Lanczos,k={k})"
    T.check(f"{tag}:shapes", Ud.shape[1] == k and Vd.shape[1] == k and tuple(Sd.shape) == (k, k), f"U {Ud.shape} S {Sd.shape} V {Vd.shape}")
    T.eq(f"{tag}:U^H U == I", np.conjugate(Ud).T @ Ud, K.eye_like(T, k, dt), dtype=False)
    T.eq(f"{tag}:V^H V == I", np.conjugate(Vd).T @ Vd, K.eye_like(T, k, dt), dtype=False)
    # best rank-k approximation: the k largest singular triplets of A
    Uf = U2 if wide else W3
    Vf = W3 if wide else U2
    want = K.zeros_like_mode(T, A.shape, dt)
    for j in range(2 - k, 2):
        want = want + sig[j] * (Uf[:, j:j + 1] @ np.conjugate(Vf[:, j:j + 1]).T)
    T.eq(f"{tag}:U Sigma V^H == best rank-{k} approximation", Ud @ Sd @ np.conjugate(Vd).T, want, dtype=False)


def case_pinv(T, m, n, complex_, algs, rhs_complex=False, cg_iters=None):
    dt, A, U0, V0, sig, r = make(T, m, n, complex_, concrete_bases=("CG" in algs and min(m, n) > 1))
    P_ = _pinvmod()
    Aop = ops.Dense(A)
    z = K.S(T, 0)
    Sinv = K.mat(T, [[(1 / sig[i]) if i == j else z for j in range(m)] for i in range(n)], dt)
    Aplus = V0 @ Sinv @ np.conjugate(U0).T
    bdt = 'complex128' if (complex_ or rhs_complex) else 'float64'
    if "CG" in algs:
        # CG has absolute guards (1e-40 denominators, tol relative to ||b||): well-scaled data, right-hand sides of symbolic scale along fixed
        # generic directions
        from fractions import Fraction as Fr
        dirs = [[Fr(1), Fr(-2, 3), Fr(3, 5)][:m], [Fr(-1, 2), Fr(1), Fr(2, 7)][:m]]
        sc = [T.var("s0", positive=True), T.var("s1", positive=True)]
        for x in sc + sig:
            T.assume(x >= 1e-2)
            T.assume(x <= 1e2)
        cols = [K.mat(T, [[sc[j] * K.cst(T, dirs[j][i], (dirs[1 - j][i] / 2) if bdt[0] == 'c' else 0) for i in range(m)]], bdt)[0] for j in range(2)]
        b = cols[0]
        B = K.mat(T, [[_it(T, cols[0][i]), _it(T, cols[1][i])] for i in range(m)], bdt)
        for c in cols:
            # the right-hand side is not (nearly) orthogonal to the range of A: ||A^H b|| >= 1e-3 ||b||
            g = np.conjugate(A).T @ c
            T.assume((np.conjugate(g) @ g).real >= 1e-6 * (np.conjugate(c) @ c).real)
    else:
        b = T.arr("b", (m, ), bdt)
        B = T.arr("B", (m, 2), bdt)
    for an in algs:
        if an == "CG":
            # pinv through CG on the normal equations: (inv_CG(A^H A) + c I) A^H with the library's regulariser c = eps * max(shape); the
            # exact-arithmetic value is A^+ b + c A^H b (the second term is at rounding level), CG run to the Krylov dimension
            from cola.linalg.inverse.cg import CG
            Pinv = P_.pinv(Aop, CG(max_iters=cg_iters or (r + 2), tol=1e-10))
            AH = np.conjugate(A).T
            T.check(f"pinv({an}):shape", tuple(Pinv.shape) == (n, m), f"{Pinv.shape}")
            X = Pinv @ B
            T.check(f"pinv({an}) @ B:shape", tuple(X.shape) == (n, 2), f"{X.shape}")
            for tag, x, c in ((f"pinv({an}) @ b", Pinv @ b, b), (f"pinv({an}) @ B[:,0]", X[:, 0], cols[0]), (f"pinv({an}) @ B[:,1]", X[:, 1], cols[1])):
                # the library regularises at rounding level (its eps * max(shape)); the claim is the minimum-norm least-squares solution up to
                # a relative 1e-9:  ||x - A^+ b||^2 <= 1e-18 (||A^+ b||^2 + ||A^H b||^2)
                d = x - Aplus @ c
                ref = Aplus @ c
                g = AH @ c
                nd, nr, ng = (np.conjugate(d) @ d).real, (np.conjugate(ref) @ ref).real, (np.conjugate(g) @ g).real
                T.true(f"{tag} == A^+ b up to a relative 1e-9", [nd <= 1e-18 * (nr + ng)])
            continue
        Pinv = P_.pinv(Aop) if an == "default" else P_.pinv(Aop, {"Auto": cola.linalg.Auto(), "LSTSQ": P_.LSTSQ()}[an])
        T.check(f"pinv({an}):shape", tuple(Pinv.shape) == (n, m), f"{Pinv.shape}")
        T.eq(f"pinv({an}) @ b == A^+ b", Pinv @ b, Aplus @ b, dtype=False)
        T.eq(f"pinv({an}) @ B == A^+ B", Pinv @ B, Aplus @ B, dtype=False)
        x = Pinv @ b
        # least-squares optimality and minimum norm, stated directly: A^H (A x - b) == 0 and x in range(A^H)
        T.eq(f"pinv({an}):normal equations", np.conjugate(A).T @ (A @ x - b), K.zeros_like_mode(T, (n, ), bdt), dtype=False)


def case_svd_lanczos_large(T, m, n, k, max_iters):
    """sizes beyond every internal default (100 Krylov steps): real float code on a concrete matrix with a graded spectrum; the iteration cap of
    the algorithm object must reach the Krylov routine on the tall and on the wide branch alike.  (Concrete, not symbolic: 130 x 110.)"""
    from cola.linalg.decompositions.decompositions import Lanczos
    from symx import shim
    was = shim.MODE.get("symbolic")
    shim.symbolic(False)
    try:
        rs = np.random.RandomState(7)
        r = min(m, n)
        U0, _ = np.linalg.qr(rs.randn(m, r))
        V0, _ = np.linalg.qr(rs.randn(n, r))
        sig = np.linspace(1.0, 3.0, r)[::-1]
        A = (U0 * sig) @ V0.T
        S_ = _svdmod()
        U, Sg, V = S_.svd(ops.Dense(A), k, "LM", Lanczos(max_iters=max_iters, tol=1e-12))
        Ud, Sd, Vd = np.asarray(U.to_dense()), np.asarray(Sg.to_dense()), np.asarray(V.to_dense())
        T.check(f"svd(Lanczos) {m}x{n}: k = {k} triplets", Ud.shape[1] == k and Vd.shape[1] == k and Sd.shape == (k, k), f"U {Ud.shape} S {Sd.shape} V {Vd.shape}")
        if Ud.shape[1] == k and Vd.shape[1] == k:
            best = (U0[:, :k] * sig[:k]) @ V0[:, :k].T
            err = np.abs(Ud @ Sd @ Vd.conj().T - best).max()
            T.check(f"svd(Lanczos) {m}x{n}: U Sigma V^H == best rank-{k} approximation (1e-6)", bool(err < 1e-6), f"max error {err:.2e}")
            T.check(f"svd(Lanczos) {m}x{n}: orthonormal factors (1e-8)", bool(np.abs(Ud.conj().T @ Ud - np.eye(k)).max() < 1e-8 and np.abs(Vd.conj().T @ Vd - np.eye(k)).max() < 1e-8))
    finally:
        shim.symbolic(was)


def _it(T, x):
    if T.sym:
        from symx.array import SymArray
        return x.raw.item() if isinstance(x, SymArray) else x
    return complex(x) if np.iscomplexobj(x) else float(x)


def case_pinv_product(T, shapes, alg):
    """pinv of a lazy product whose outer factors are square and whose interior factors are not: the pseudo-inverse of a product is NOT the
    reversed product of the pseudo-inverses then.  First factor symbolic, the others generic rational (full rank)."""
    from fractions import Fraction as Fr
    P_ = _pinvmod()
    dt = 'float64'
    mats, facs = [], []
    cnt = 3
    for i, (m, n) in enumerate(shapes):
        if i == 0:
            F_ = T.arr("F", (m, n), dt)
        else:
            rows = []
            for a in range(m):
                row = []
                for b_ in range(n):
                    row.append(K.cst(T, Fr((cnt * 7) % 13 - 6, 1 + cnt % 3) + (4 if a == b_ else 0)))
                    cnt += 1
                rows.append(row)
            F_ = K.mat(T, rows, dt)
        mats.append(F_)
        facs.append(ops.Dense(F_))
    M = mats[0]
    op = facs[0]
    for F_, f in zip(mats[1:], facs[1:]):
        M = M @ F_
        op = op @ f
    m, n = M.shape
    b = T.arr("b", (m, ), dt)
    MH = M.T
    if m <= n:
        want = MH @ K.exact_solve(T, M @ MH, b.reshape(m, 1)).reshape(-1)
    else:
        want = K.exact_solve(T, MH @ M, (MH @ b).reshape(n, 1)).reshape(-1)
    Pinv = P_.pinv(op) if alg == "default" else P_.pinv(op, {"Auto": cola.linalg.Auto(), "LSTSQ": P_.LSTSQ()}[alg])
    T.check(f"pinv({alg}) of a product:shape", tuple(Pinv.shape) == (n, m), f"{Pinv.shape}")
    x = Pinv @ b
    T.eq(f"pinv({alg}) of a product @ b == M^+ b", x, want, dtype=False)
    T.eq(f"pinv({alg}) of a product: normal equations", MH @ (M @ x - b), K.zeros_like_mode(T, (n, ), dt), dtype=False)


def case_pinv_rules(T, kind):
    P_ = _pinvmod()
    dt = 'float64'
    n = 3
    b = T.arr("b", (n, ), dt)
    if kind == "identity":
        A = ops.Identity((n, n), np.dtype(dt))
        want = b
    elif kind == "scalar":
        c = T.scalar("c", dt)
        A = ops.ScalarMul(c, (n, n), dtype=np.dtype(dt))
        want = b / c
    elif kind == "diag":
        d = T.arr("d", (n, ), dt)
        A = ops.Diagonal(d)
        want = b / d
    else:
        p = [2, 0, 1]
        A = ops.Permutation(np.array(p), np.dtype(dt))
        want = None
    for alg in (None, cola.linalg.Auto(), P_.LSTSQ()):
        tag = f"pinv({type(alg).__name__ if alg is not None else 'default'})"
        X = (P_.pinv(A) if alg is None else P_.pinv(A, alg)) @ b
        if want is not None:
            T.eq(f"{tag} @ b", X, want, dtype=False)
        T.eq(f"{tag}:A (pinv(A) b) == b", A @ X, b, dtype=False)


def cases(tier, seed):
    out = []
    for nm, shp in (("sq@wide@sq", [(2, 2), (2, 3), (3, 3)]), ("sq@tall@sq", [(3, 3), (3, 2), (2, 2)]), ("sq@wide@tall@sq", [(2, 2), (2, 3), (3, 2), (2, 2)]),
                    ("sq@sq", [(2, 2), (2, 2)]), ("tall@wide", [(2, 1), (1, 2)]) if False else ("wide@sq", [(2, 3), (3, 3)]), ("sq@sq@sq", [(2, 2), (2, 2), (2, 2)])):
        for alg in ("default", "LSTSQ"):
            out.append((f"pinv-product:{nm}:{alg}", case_pinv_product, dict(shapes=shp, alg=alg), dict(partial_ok=True)))
    shapes = [(2, 2), (3, 2), (2, 3), (3, 3), (1, 2), (2, 1)]
    if tier == "thorough":
        shapes += [(4, 3), (3, 4), (4, 4), (4, 2), (2, 4), (1, 3), (3, 1)]
    for (m, n) in shapes:
        out.append((f"svd:{m}x{n}", case_svd, dict(m=m, n=n, complex_=False, algs=["Auto", "DenseSVD"])))
        out.append((f"pinv:{m}x{n}", case_pinv, dict(m=m, n=n, complex_=False, algs=["default", "Auto", "LSTSQ"])))
    for (m, n) in [(2, 2), (3, 2), (2, 3)] + ([(3, 3), (1, 2), (2, 1)] if tier == "thorough" else []):
        out.append((f"svd-complex:{m}x{n}", case_svd, dict(m=m, n=n, complex_=True, algs=["DenseSVD"])))
        out.append((f"pinv-complex:{m}x{n}", case_pinv, dict(m=m, n=n, complex_=True, algs=["default"])))
        out.append((f"pinv-real-A-complex-b:{m}x{n}", case_pinv, dict(m=m, n=n, complex_=False, algs=["default"], rhs_complex=True)))
    for (m, n) in [(2, 1), (1, 2), (2, 2), (3, 2), (2, 3)]:
        out.append((f"pinv-cg:{m}x{n}", case_pinv, dict(m=m, n=n, complex_=False, algs=["CG"])))
    out.append(("pinv-cg-complex:2x2", case_pinv, dict(m=2, n=2, complex_=True, algs=["CG"])))
    for wide in (True, False):
        for cx in (False, True):
            for k in (1, 2):
                out.append((f"svd-lanczos:{'wide' if wide else 'tall'}{'-complex' if cx else ''}:k{k}", case_svd_lanczos, dict(wide=wide, complex_=cx, k=k)))
    for (m, n) in ((130, 110), (110, 130)):
        out.append((f"svd-lanczos-large:{m}x{n}", case_svd_lanczos_large, dict(m=m, n=n, k=105, max_iters=110), dict(validate=True)))
    for kind in ("identity", "scalar", "diag", "perm"):
        out.append((f"pinv-rule:{kind}", case_pinv_rules, dict(kind=kind)))
    return out


BOUNDS = dict(shapes="2x2, 3x2, 2x3, 3x3, 1x2, 2x1 real; 2x2, 3x2, 2x3 complex; real A with complex right-hand sides", algorithms="svd: Auto(), DenseSVD(); "
              "pinv: default, Auto(), LSTSQ(), CG(), Identity / ScalarMul / Diagonal / Permutation rules", values="singular values, rotation parameters, right-hand "
              "sides symbolic")
BOUNDS["added"] = 'pinv of lazy products with square outer and non-square interior factors Thorough tier: shapes up to 4 x 4 (4x3, 3x4, 4x4, 4x2, 2x4, 1x3, 3x1), complex 3x3 / 1x2 / 2x1.'

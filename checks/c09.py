"""C09 — matrix functions exp / log / sqrt / isqrt / pow / apply_unary equal f of the matrix.

Dense paths by inverse parametrisation: A := V diag(w) V^H (Eigh; symbolic plane rotation for n = 2, rational orthogonal basis for
n = 3) and A := P diag(w) P^-1 (Eig; concrete invertible P), symbolic spectrum; exp / log are uninterpreted functions (the same
symbol f(w_i) must appear in the result), half-integer powers are sqrt generators.  Oracle: the primary matrix function
P diag(f(w)) P^-1 applied to symbolic vectors.  Structural rules (Diagonal, BlockDiag, Identity, ScalarMul, Transpose, Adjoint,
exp(KronSum), pow(Kronecker)), the integer-power shortcuts, pow(A, -1) == inv and sqrt(A) sqrt(A) == A are compared the same way;
the Lanczos / Arnoldi algorithms run on Krylov-parametrised inputs of Krylov dimension 2."""
import numpy as np

import cola
from cola import ops

from . import krylov as K
from .c01 import C16, F8

PROPERTY = "C09"
OPTS = {
    "quick": dict(max_paths=12, case_budget_s=200, flip_timeout_ms=8000, partial_ok=True, abs_gen=True),
    "thorough": dict(max_paths=48, case_budget_s=900, flip_timeout_ms=20000, partial_ok=True, abs_gen=True),
}
ASSUMPTIONS = ["exp / log are uninterpreted (congruence only); x**a for half-integer a through sqrt generators on positive spectra",
               "diagonalisable inputs given by their eigen-decomposition; LAPACK eigh / eig return the registered decomposition (every admissible "
               "answer is covered because the eigen-data are symbolic)",
               "Lanczos / Arnoldi matrix functions: operands v = s Q e1 of Krylov dimension <= 2 (the projected 2x2 matrix is itself given by a "
               "symbolic spectral decomposition)"]


def _un():
    import importlib
    return importlib.import_module("cola.linalg.unary.unary")


def fapply(T, fname, x):
    """scalar function on a mode scalar"""
    if fname == "exp":
        if T.sym:
            from symx.array import _sym_exp
            return _sym_exp(x)
        return np.exp(x)
    if fname == "log":
        if T.sym:
            from symx.array import _sym_log
            return _sym_log(x)
        return np.log(x)
    if fname.startswith("pow"):
        a = float(fname[3:])
        if T.sym:
            from symx.core import C
            return C(x)**a
        return x**a
    raise ValueError(fname)


def call(fname, A, alg=None):
    U = _un()
    args = (A, ) if alg is None else (A, alg)
    if fname == "exp":
        return U.exp(*args)
    if fname == "log":
        return U.log(*args)
    if fname == "pow0.5s":
        return U.sqrt(*args)
    if fname == "pow-0.5s":
        return U.isqrt(*args)
    if fname.startswith("pow"):
        a = float(fname[3:].rstrip("s"))
        a = int(a) if a == int(a) else a
        return U.pow(A, a) if alg is None else U.pow(A, a, alg)
    if fname == "apply_exp":
        return U.apply_unary(A.xnp.exp, A) if alg is None else U.apply_unary(A.xnp.exp, A, alg)
    raise ValueError(fname)


def base(fname):
    if fname in ("pow0.5s", ):
        return "pow0.5"
    if fname == "pow-0.5s":
        return "pow-0.5"
    if fname == "apply_exp":
        return "exp"
    return fname


def _diagf(T, fname, w, dt):
    n = len(w)
    z = K.S(T, 0)
    return K.mat(T, [[fapply(T, base(fname), w[i]) if i == j else z for j in range(n)] for i in range(n)], dt)


def _observe(T, tag, F, want_mat, dt):
    n = want_mat.shape[0]
    v = T.arr("v" + str(abs(hash(tag)) % 9973), (n, ), dt)
    T.eq(f"{tag} @ v", F @ v, want_mat @ v, dtype=False)
    Vv = T.arr("V" + str(abs(hash(tag)) % 9973), (n, 2), dt)
    T.eq(f"{tag} @ V", F @ Vv, want_mat @ Vv, dtype=False)


def _guard(T, tag, thunk):
    from symx.core import Inconclusive, PathAbort
    from symx.harness import CaseTimeout
    try:
        return thunk()
    except (Inconclusive, PathAbort, CaseTimeout):
        raise
    except Exception as e:
        T.check(f"{tag}:!exception", False, f"{type(e).__name__}: {e}"[:300])


def case_eigh(T, n, fnames, algs, positive=True, declared="PSD"):
    dt = 'float64'
    V = K.cayley2_symbolic(T, "t") if n == 2 else K.basis(T, n, 0, False, dt)
    w = [T.var(f"w{i}", positive=positive) for i in range(n)]
    z = K.S(T, 0)
    A = V @ K.mat(T, [[w[i] if i == j else z for j in range(n)] for i in range(n)], dt) @ V.T
    if T.sym:
        from symx import lapack
        lapack.register("eigh", K.raw(T, A), (K.raw(T, K.mat(T, [w], dt))[0], K.raw(T, V)))
        lapack.register("eig", K.raw(T, A), (K.raw(T, K.mat(T, [w], dt))[0], K.raw(T, V)))
    Aop = getattr(cola, declared)(ops.Dense(A)) if declared else ops.Dense(A)
    U = _un()
    for fname in fnames:
        for an in algs:
            alg = {"default": None, "Auto": cola.linalg.Auto(), "Eigh": U.Eigh(), "Eig": U.Eig()}[an]
            tag = f"{fname}({an})"
            want = V @ _diagf(T, fname, w, dt) @ V.T
            _guard(T, tag, lambda: _observe(T, tag, call(fname, Aop, alg), want, dt))


def case_eig_degenerate(T, fnames, algs, declared):
    """a symmetric matrix with a repeated eigenvalue, A = a (I - p p^T) + b p p^T, sent through the GENERAL eigensolver: LAPACK's geev returns
    unit-norm eigenvectors but does not orthogonalise inside a degenerate eigenspace, so the stand-in hands back a (legitimate) basis
    P = [u1, (3 u1 + 4 u2) / 5, p] that is not orthogonal; P^-1 != P^T"""
    from fractions import Fraction as F
    dt = 'float64'
    cols = [[F(2, 3), F(1, 3), F(-2, 3)], [F(2, 3), F(-2, 3), F(1, 3)], [F(1, 3), F(2, 3), F(2, 3)]]
    u1, u2, pp = cols
    p2 = [(3 * x + 4 * y) / 5 for x, y in zip(u1, u2)]
    P = K.mat(T, [[K.cst(T, c[i]) for c in (u1, p2, pp)] for i in range(3)], dt)
    Pinv = K.arr(T, K.raw(T, K.exact_solve(T, P, K.eye_like(T, 3, dt))), dt)
    a, b = T.var("a", positive=True), T.var("b", positive=True)
    w = [a, a, b]
    z = K.S(T, 0)
    A = P @ K.mat(T, [[w[i] if i == j else z for j in range(3)] for i in range(3)], dt) @ Pinv
    if T.sym:
        from symx import lapack
        lapack.register("eig", K.raw(T, A), (K.raw(T, K.mat(T, [w], dt))[0], K.raw(T, P)))
    Aop = getattr(cola, declared)(ops.Dense(A)) if declared else ops.Dense(A)
    U = _un()
    for fname in fnames:
        for an in algs:
            alg = {"default": None, "Auto": cola.linalg.Auto(), "Eig": U.Eig()}[an]
            tag = f"{fname}({an})"
            want = P @ _diagf(T, fname, w, dt) @ Pinv
            _guard(T, tag, lambda: _observe(T, tag, call(fname, Aop, alg), want, dt))


def case_eig(T, fnames, algs, complex_pair=False):
    """general (non-symmetric) A = P diag(w) P^-1 with a concrete invertible P"""
    dt = 'float64'
    P = K.mat(T, [[K.S(T, 1), K.S(T, 2)], [K.S(T, 1), K.S(T, 3)]], dt)
    Pinv = K.mat(T, [[K.S(T, 3), K.S(T, -2)], [K.S(T, -1), K.S(T, 1)]], dt)
    w = [T.var("w0", positive=True), T.var("w1", positive=True)]
    z = K.S(T, 0)
    A = P @ K.mat(T, [[w[0], z], [z, w[1]]], dt) @ Pinv
    if T.sym:
        from symx import lapack
        lapack.register("eig", K.raw(T, A), (K.raw(T, K.mat(T, [w], dt))[0], K.raw(T, P)))
    Aop = ops.Dense(A)
    U = _un()
    for fname in fnames:
        for an in algs:
            alg = {"default": None, "Auto": cola.linalg.Auto(), "Eig": U.Eig()}[an]
            tag = f"{fname}({an})"
            want = P @ _diagf(T, fname, w, dt) @ Pinv
            _guard(T, tag, lambda: _observe(T, tag, call(fname, Aop, alg), want, dt))


def case_structural(T, kind, fnames):
    dt = 'float64'
    U = _un()
    z = K.S(T, 0)
    if kind == "diag":
        d = T.arr("d", (3, ), dt, positive=True)
        A = ops.Diagonal(d)
        spec = [d[i] for i in range(3)]
        for fname in fnames:
            want = _diagf(T, fname, [_it(T, x) for x in spec], dt)
            _guard(T, fname, lambda: _observe(T, fname, call(fname, A), want, dt))
            _guard(T, fname + "(Auto)", lambda: _observe(T, fname + "(Auto)", call(fname, A, cola.linalg.Auto()), want, dt))
    elif kind == "scalar":
        c = T.scalar("c", dt, positive=True)
        A = ops.ScalarMul(c, (2, 2), dtype=np.dtype(dt))
        for fname in fnames:
            want = _diagf(T, fname, [_it(T, c)] * 2, dt)
            _guard(T, fname, lambda: _observe(T, fname, call(fname, A, cola.linalg.Auto()), want, dt))
    elif kind == "identity":
        A = ops.Identity((2, 2), np.dtype(dt))
        for fname in fnames:
            want = _diagf(T, fname, [K.S(T, 1)] * 2, dt)
            _guard(T, fname, lambda: _observe(T, fname, call(fname, A, cola.linalg.Auto()), want, dt))
    elif kind in ("blockdiag", "transpose", "adjoint", "kronsum", "kron"):
        d1 = T.arr("d1", (2, ), dt, positive=True)
        d2 = T.arr("d2", (2, ), dt, positive=True)
        D1, D2 = ops.Diagonal(d1), ops.Diagonal(d2)
        s1 = [_it(T, d1[i]) for i in range(2)]
        s2 = [_it(T, d2[i]) for i in range(2)]
        for fname in fnames:
            if kind == "blockdiag":
                A = ops.BlockDiag(D1, D2, multiplicities=[2, 1])
                want = _diagf(T, fname, s1 + s1 + s2, dt)
            elif kind == "transpose":
                A = ops.Transpose(D1)
                want = _diagf(T, fname, s1, dt)
            elif kind == "adjoint":
                A = ops.Adjoint(D1)
                want = _diagf(T, fname, s1, dt)
            elif kind == "kronsum":
                A = ops.KronSum(D1, D2)
                want = _diagf(T, fname, [a + b for a in s1 for b in s2], dt)
            else:
                A = ops.Kronecker(D1, D2)
                want = _diagf(T, fname, [a * b for a in s1 for b in s2], dt)
            _guard(T, fname, lambda: _observe(T, fname, call(fname, A, cola.linalg.Auto()), want, dt))
            if kind in ("kronsum", "kron"):
                F = call(fname, A, cola.linalg.Auto())
                T.check(f"{fname}:structure-kept", type(F).__name__.split("[")[0] == "Kronecker", type(F).__name__)


def _it(T, x):
    if T.sym:
        from symx.array import SymArray
        from symx.core import C
        return C(x.raw.item()) if isinstance(x, SymArray) else C(x)
    return float(np.asarray(x).real)


def case_powers(T, n):
    """integer powers == repeated multiplication, pow(A, -1) == inverse, sqrt(A) sqrt(A) == A, pow(A, 0) == I"""
    dt = 'float64'
    U = _un()
    A = T.arr("A", (n, n), dt)
    Aop = ops.Dense(A)
    v = T.arr("v", (n, ), dt)
    acc = v
    for k in (1, 2, 3, 9):
        P = U.pow(Aop, k)
        want = v
        for _ in range(k):
            want = A @ want
        T.eq(f"pow(A,{k}) @ v == A^{k} v", P @ v, want, dtype=False)
    T.eq("pow(A,0) @ v == v", U.pow(Aop, 0) @ v, v, dtype=False)
    T.eq("pow(A,2.0) @ v", U.pow(Aop, 2.0) @ v, A @ (A @ v), dtype=False)
    x = U.pow(Aop, -1) @ v
    T.eq("A (pow(A,-1) @ v) == v", A @ x, v, dtype=False)
    x = U.pow(Aop, -1, cola.linalg.Auto()) @ v
    T.eq("A (pow(A,-1,Auto) @ v) == v", A @ x, v, dtype=False)
    # negative integer powers other than -1 and large powers go through the eigen-decomposition
    d = T.arr("d", (n, ), dt, positive=True)
    D = ops.Diagonal(d)
    for k in (-2, 10, 2.5, -0.5):
        want = K.mat(T, [[(_it(T, d[i])**k if not isinstance(k, float) else fapply(T, f"pow{k}", _it(T, d[i]))) if i == j else K.S(T, 0) for j in range(n)] for i in range(n)], dt)
        T.eq(f"pow(Diagonal,{k}) @ v", U.pow(D, k) @ v, want @ v, dtype=False)


def case_sqrt_twice(T, n):
    dt = 'float64'
    V = K.cayley2_symbolic(T, "t") if n == 2 else K.basis(T, n, 0, False, dt)
    w = [T.var(f"w{i}", positive=True) for i in range(n)]
    z = K.S(T, 0)
    A = V @ K.mat(T, [[w[i] if i == j else z for j in range(n)] for i in range(n)], dt) @ V.T
    if T.sym:
        from symx import lapack
        lapack.register("eigh", K.raw(T, A), (K.raw(T, K.mat(T, [w], dt))[0], K.raw(T, V)))
    Aop = cola.PSD(ops.Dense(A))
    S = _un().sqrt(Aop)
    v = T.arr("v", (n, ), dt)
    T.eq("sqrt(A) (sqrt(A) v) == A v", S @ (S @ v), A @ v, dtype=False)
    Si = _un().isqrt(Aop)
    T.eq("isqrt(A) (sqrt(A) v) == v", Si @ (S @ v), v, dtype=False)


def case_adjoint_complex(T):
    """Adjoint / Transpose rules on a genuinely complex operator: f(A^H) = f(A)^H, f(A^T) = f(A)^T (integer powers beyond the shortcut)"""
    U = _un()
    d = T.arr("d", (2, ), 'complex128')
    D = ops.Diagonal(d)
    v = T.arr("v", (2, ), 'complex128')
    for k in (10, -2):
        dk = d**k if k > 0 else 1 / (d * d)
        T.eq(f"pow(Adjoint(D),{k}) @ v", U.pow(ops.Adjoint(D), k, cola.linalg.Auto()) @ v, np.conjugate(dk) * v, dtype=False)
        T.eq(f"pow(Transpose(D),{k}) @ v", U.pow(ops.Transpose(D), k, cola.linalg.Auto()) @ v, dk * v, dtype=False)
        T.eq(f"pow(D.H,{k}) @ v", U.pow(cola.no_dispatch(D).H, k, cola.linalg.Auto()) @ v if False else U.pow(ops.Adjoint(D), k) @ v, np.conjugate(dk) * v, dtype=False)


def case_krylov(T, which, fname, n, tiny=False, max_iters=None):
    """Lanczos / Arnoldi matrix functions on v = s Q e1 with a 2-dimensional Krylov space"""
    dt = 'float64'
    Q = K.basis(T, n, 0, False, dt)
    z = K.S(T, 0)
    if which == "lanczos":
        R = K.cayley2_symbolic(T, "p")
        w = [T.var("w0", positive=True), T.var("w1", positive=True)]
        T.assume(w[1] - w[0] >= 1e-3)
        T2 = R @ K.mat(T, [[w[0], z], [z, w[1]]], dt) @ R.T
        Pm, Pinv = R, R.T
    else:
        Pm = K.mat(T, [[K.S(T, 1), K.S(T, 2)], [K.S(T, 1), K.S(T, 3)]], dt)
        Pinv = K.mat(T, [[K.S(T, 3), K.S(T, -2)], [K.S(T, -1), K.S(T, 1)]], dt)
        w = [T.var("w0", positive=True), T.var("w1", positive=True)]
        T2 = Pm @ K.mat(T, [[w[0], z], [z, w[1]]], dt) @ Pinv
    T.assume(T2[1, 0] >= 1e-2)
    if not tiny:
        # every eigenvalue is well above the zero-padding mask 10 * eps * max|eig| of the Krylov matrix functions
        T.assume(w[0] >= 1e-3 * w[1])
        T.assume(w[1] >= 1e-3 * w[0])
    elif which == "lanczos":
        T.assume(w[0] <= 1e-17 * w[1])
    else:
        T.assume(w[1] <= 1e-17 * w[0])
    rows = [[z for _ in range(n)] for _ in range(n)]
    for i in range(2):
        for j in range(2):
            rows[i][j] = _it(T, T2[i, j]) if T.sym else float(T2[i, j])
    rest = [T.var(f"r{i}", positive=True) for i in range(2, n)]
    for i in range(2, n):
        rows[i][i] = rest[i - 2]
    Tm = K.mat(T, rows, dt)
    A = Q @ Tm @ Q.T
    s = T.var("s", positive=True)
    T.assume(s >= 1e-2)
    v = s * Q[:, 0]
    if T.sym:
        from symx import lapack
        pad = lambda M, k: M  # noqa
        lapack.register("eigh" if which == "lanczos" else "eig", K.raw(T, T2), (K.raw(T, K.mat(T, [w], dt))[0], K.raw(T, Pm)))
    from cola.linalg.decompositions.decompositions import Arnoldi, Lanczos
    alg = Lanczos(max_iters=max_iters or n, tol=1e-9) if which == "lanczos" else Arnoldi(max_iters=max_iters or 2, tol=1e-9)
    Aop = cola.PSD(ops.Dense(A)) if which == "lanczos" else ops.Dense(A)
    F = call(fname, Aop, alg)
    fT2 = Pm @ _diagf(T, fname, w, dt) @ Pinv
    want = s * (Q[:, :2] @ fT2[:, 0])
    got = F @ v
    T.eq(f"{which}:{fname}(A) v == Q f(T) e1 ||v||", got.real if np.iscomplexobj(got) or (T.sym and got.dtype.kind == 'c') else got, want, dtype=False)


def case_krylov_columns(T, which, fname, n, max_iters=None):
    """f(A) @ I through the Lanczos / Arnoldi algorithms for A = blockdiag(P diag(w) P^-1, r_2, ..): the columns of the operand have Krylov
    spaces of different dimension (2 for e_0, e_1; 1 for the others), all exhausted within max_iters"""
    from .c07 import krylov_block_operator
    dt = 'float64'
    Am, Pm, Pinv, w, rest = krylov_block_operator(T, which, n)
    from cola.linalg.decompositions.decompositions import Arnoldi, Lanczos
    alg = Lanczos(max_iters=max_iters or n, tol=1e-9) if which == "lanczos" else Arnoldi(max_iters=max_iters or n, tol=1e-9)
    Aop = cola.PSD(ops.Dense(Am)) if which == "lanczos" else ops.Dense(Am)
    F = call(fname, Aop, alg)
    z = K.S(T, 0)
    f2 = Pm @ _diagf(T, fname, w, dt) @ Pinv
    rows = [[z for _ in range(n)] for _ in range(n)]
    for i in range(2):
        for j in range(2):
            rows[i][j] = _it(T, f2[i, j]) if T.sym else float(f2[i, j])
    for i in range(2, n):
        rows[i][i] = fapply(T, base(fname), rest[i - 2])
    want = K.mat(T, rows, dt)
    got = F @ K.eye_like(T, n, dt)
    T.eq(f"{which}:{fname}(A) @ I == f(A)", got.real if np.iscomplexobj(got) or (T.sym and got.dtype.kind == 'c') else got, want, dtype=False)
    # reflected entry points: v @ F and F.T @ v are the action of f(A)^T (not of f(A), which is not symmetric for the Arnoldi operators)
    # (left operand s2 e_0: its own Krylov space has dimension 2, so the symmetric shortcut of the Lanczos operator stays inside the registered matrices)
    s2 = T.var("s2l", positive=True)
    T.assume(s2 >= 1e-2)
    yv = K.mat(T, [[s2 if i == 0 else z for i in range(n)]], dt)[0]
    FT = F.T
    gotl = yv @ F
    T.eq(f"{which}:y @ {fname}(A) == y^T f(A)", gotl.real if np.iscomplexobj(gotl) or (T.sym and gotl.dtype.kind == 'c') else gotl, yv @ want, dtype=False)
    gott = FT @ yv
    T.eq(f"{which}:{fname}(A).T @ y == f(A)^T y", gott.real if np.iscomplexobj(gott) or (T.sym and gott.dtype.kind == 'c') else gott, want.T @ yv, dtype=False)
    sc = T.var("sc", positive=True)
    T.assume(sc >= 1e-2)
    col = K.mat(T, [[sc if i == n - 1 else z for i in range(n)]], dt)[0]
    got1 = F @ col
    T.eq(f"{which}:{fname}(A) @ (s e_last)", got1.real if np.iscomplexobj(got1) or (T.sym and got1.dtype.kind == 'c') else got1, sc * want[:, n - 1], dtype=False)


def cases(tier, seed):
    out = []
    FN = ["exp", "log", "pow0.5s", "pow-0.5s", "pow2.5", "apply_exp"]
    out.append(("eigh:n2", case_eigh, dict(n=2, fnames=FN, algs=["default", "Auto", "Eigh"])))
    out.append(("eigh:n3", case_eigh, dict(n=3, fnames=["exp", "pow0.5s", "log"], algs=["default", "Eigh"])))
    out.append(("eigh:n2-singular-psd-exp", case_eigh, dict(n=2, fnames=["exp"], algs=["default"], positive=False, declared="PSD")))
    out.append(("eigh:n2-selfadjoint-auto-goes-eig", case_eigh, dict(n=2, fnames=["exp", "pow0.5s"], algs=["default", "Eigh"], declared="SelfAdjoint")))
    out.append(("eig:n2", case_eig, dict(fnames=FN, algs=["default", "Auto", "Eig"])))
    out.append(("eig:degenerate-selfadjoint", case_eig_degenerate, dict(fnames=["exp", "pow0.5s", "log", "pow2"], algs=["default", "Eig"], declared="SelfAdjoint")))
    out.append(("eig:degenerate-psd-explicit-eig", case_eig_degenerate, dict(fnames=["exp", "pow-0.5s"], algs=["Eig"], declared="PSD")))
    out.append(("eig:degenerate-undeclared", case_eig_degenerate, dict(fnames=["exp", "pow0.5s"], algs=["default", "Eig"], declared=None)))
    for kind in ("diag", "scalar", "identity", "blockdiag", "transpose", "adjoint"):
        out.append((f"rule:{kind}", case_structural, dict(kind=kind, fnames=["exp", "log", "pow0.5s", "pow-0.5s", "pow2.5"])))
    out.append(("rule:kronsum-exp", case_structural, dict(kind="kronsum", fnames=["exp"])))
    out.append(("rule:kron-pow", case_structural, dict(kind="kron", fnames=["pow0.5s", "pow-0.5s", "pow2.5"])))
    for n in (2, 3):
        out.append((f"powers:n{n}", case_powers, dict(n=n), dict(max_paths=40)))
        out.append((f"sqrt-twice:n{n}", case_sqrt_twice, dict(n=n)))
    for which in ("lanczos", "arnoldi"):
        for fname in ("exp", "pow0.5s", "log"):
            for n in (2, 3):
                out.append((f"{which}:{fname}:n{n}", case_krylov, dict(which=which, fname=fname, n=n), dict(abs_gen=False)))
    out.append(("rule:adjoint-complex", case_adjoint_complex, dict()))
    for which in ("lanczos", "arnoldi"):
        for fname, n, m in (("log", 2, None), ("exp", 3, None), ("pow0.5s", 3, 5), ("log", 3, None)):
            out.append((f"{which}-columns:{fname}:n{n}" + (f"m{m}" if m else ""), case_krylov_columns, dict(which=which, fname=fname, n=n, max_iters=m), dict(abs_gen=False)))
    for fname in ("log", "pow-0.5s", "exp"):
        if fname != "pow-0.5s":  # 0**-0.5 is inf, which the exact model does not represent
            out.append((f"arnoldi-padded:{fname}:n2m4", case_krylov, dict(which="arnoldi", fname=fname, n=2, max_iters=4), dict(abs_gen=False)))
        out.append((f"lanczos-padded:{fname}:n3m5", case_krylov, dict(which="lanczos", fname=fname, n=3, max_iters=5), dict(abs_gen=False)))
    if tier == "thorough":
        FN2 = FN + ["pow2", "pow-1", "pow3", "pow-2", "pow1.5"]
        out.append(("eigh:n3-all", case_eigh, dict(n=3, fnames=FN2, algs=["default", "Auto", "Eigh", "Eig"])))
        out.append(("eigh:n4", case_eigh, dict(n=4, fnames=["exp", "log", "pow0.5s", "pow-0.5s"], algs=["default", "Eigh"])))
        out.append(("eigh:n2-all", case_eigh, dict(n=2, fnames=FN2, algs=["default", "Auto", "Eigh", "Eig"])))
        out.append(("eigh:n3-selfadjoint", case_eigh, dict(n=3, fnames=FN, algs=["default", "Eigh"], declared="SelfAdjoint")))
        out.append(("eigh:n3-undeclared", case_eigh, dict(n=3, fnames=["exp", "pow0.5s", "log"], algs=["default"], declared=None)))
        out.append(("eig:n2-all", case_eig, dict(fnames=FN2, algs=["default", "Auto", "Eig"])))
        out.append(("eig:degenerate-all", case_eig_degenerate, dict(fnames=FN2, algs=["default", "Eig"], declared="SelfAdjoint")))
        for kind in ("diag", "scalar", "identity", "blockdiag", "transpose", "adjoint"):
            out.append((f"rule-more:{kind}", case_structural, dict(kind=kind, fnames=["pow2", "pow-1", "pow3", "pow1.5", "apply_exp"])))
        for n in (4, ):
            out.append((f"powers:n{n}", case_powers, dict(n=n), dict(max_paths=40, partial_ok=True)))
    out.append(("arnoldi-tiny-eigenvalue:exp", case_krylov, dict(which="arnoldi", fname="exp", n=2, tiny=True), dict(abs_gen=False, validate=False)))
    return out


BOUNDS = dict(dense="Eigh on V diag(w) V^T (n = 2 symbolic rotation, n = 3 rational basis), Eig on P diag(w) P^-1 (n = 2), default / Auto / explicit algorithm",
              functions="exp, log, sqrt, isqrt, pow 2.5, apply_unary(exp); integer powers {0,1,2,3,9,2.0,-1,-2,10}", rules="Diagonal, ScalarMul, Identity, BlockDiag "
              "with multiplicities, Transpose, Adjoint, exp(KronSum), pow(Kronecker)", krylov="Lanczos / Arnoldi algorithm objects, n in {2,3}, Krylov dimension 2 (single vector), multi-column operands whose columns have Krylov dimension 2, 2, 1 in one batch",
              values="spectra, rotation parameter, vectors symbolic")
BOUNDS["added"] = 'symmetric matrices with a repeated eigenvalue through the general eigensolver, whose stand-in returns a legitimate non-orthogonal basis of the degenerate eigenspace Thorough tier: 11 functions x {default, Auto, Eigh, Eig} for n = 2, 3, Eigh n = 4, integer powers n = 4, more functions on every structural rule.'

import sympy, numpy as np
from fractions import Fraction as F
def ratQ(n):
    Sk=sympy.zeros(n); cnt=1
    for i in range(n):
        for j in range(i+1,n):
            Sk[i,j]=sympy.Rational(cnt,cnt+2); Sk[j,i]=-Sk[i,j]; cnt+=1
    Qs=(sympy.eye(n)-Sk)*(sympy.eye(n)+Sk).inv()
    return np.array([[F(int(Qs[i,j].p),int(Qs[i,j].q)) for j in range(n)] for i in range(n)],dtype=object)

import numpy as np, z3, itertools, time
import cola, plum, plum.signature as ps
from plum import dispatch
from cola.ops import *
from cola.linalg import *
import cola.linalg as cl
real_bearable=ps._is_bearable
# class lattice: representative instances
I2=np.eye(2)
reps={
 'Dense':Dense(I2),'Triangular':Triangular(I2),'Diagonal':Diagonal(np.ones(2)),'Identity':Identity((2,2),np.float64),
 'ScalarMul':ScalarMul(2.,(2,2),np.float64),'Product':Product(Dense(I2),Dense(I2)),'Sum':Sum(Dense(I2),Dense(I2)),
 'Kronecker':Kronecker(Dense(I2),Dense(I2)),'KronSum':KronSum(Dense(I2),Dense(I2)),'BlockDiag':BlockDiag(Dense(I2),Dense(I2)),
 'Permutation':Permutation(np.array([1,0])),'Tridiagonal':Tridiagonal(np.ones(1),np.ones(2),np.ones(1)),
 'Transpose':Transpose(cola.fns.no_dispatch(Dense(I2))),'Adjoint':Adjoint(cola.fns.no_dispatch(Dense(I2))),
 'Sliced':Sliced(Dense(I2),(slice(0,2),slice(0,2))),'Generic':cola.fns.no_dispatch(Dense(I2)),'Householder':Householder(np.ones((2,1))),
}
algs={'Auto':Auto(),'CG':CG(),'GMRES':GMRES(),'LU':LU(),'Cholesky':Cholesky()}
KS=list(reps); AS=list(algs)
Kind,kc=z3.EnumSort('Kind',KS); Alg,ac=z3.EnumSort('Alg',AS)
class Dec:
    def __init__(s): s.pc=[]; s.prefix=[]; s.pos=0; s.pending=[]
D=Dec()
class SBool:
    def __init__(s,e): s.e=e
    def __bool__(s):
        e=z3.simplify(s.e)
        if z3.is_true(e): return True
        if z3.is_false(e): return False
        if D.pos<len(D.prefix): d=D.prefix[D.pos]
        else:
            sol=z3.Solver(); sol.add(*D.pc)
            sol.push(); sol.add(e); t=sol.check()==z3.sat; sol.pop()
            sol.push(); sol.add(z3.Not(e)); f=sol.check()==z3.sat; sol.pop()
            d=t
            if t and f: D.pending.append(D.prefix[:D.pos]+[False])
            D.prefix=D.prefix[:D.pos]+[d]
        D.pos+=1; D.pc.append(e if d else z3.Not(e)); return d
class SymOp:
    def __init__(s,name):
        s.k=z3.Const(name,Kind); s.ann={a:z3.Bool(f"{name}_{a}") for a in ('SelfAdjoint','PSD','Stiefel','Unitary')}
        s.square=z3.Bool(name+'_Ms_square')
    def isa(s,annotation):
        n=annotation.__name__
        subs={'SelfAdjoint':['SelfAdjoint','PSD'],'PSD':['PSD'],'Stiefel':['Stiefel','Unitary'],'Unitary':['Unitary']}[n]
        return SBool(z3.Or([s.ann[x] for x in subs]))
    @property
    def Ms(s):
        class M: pass
        m=M(); 
        class Dim:
            def __init__(d,e): d.e=e
            def __eq__(d,o): return SBool(s.square)
        m.shape=(Dim(0),Dim(1)); return [m]
class SymAlg:
    def __init__(s,name): s.k=z3.Const(name,Alg)
def sym_bearable(v,t):
    if isinstance(v,SymOp): return SBool(z3.Or([v.k==kc[i] for i,K in enumerate(KS) if real_bearable(reps[K],t)]+[False]))
    if isinstance(v,SymAlg): return SBool(z3.Or([v.k==ac[i] for i,K in enumerate(AS) if real_bearable(algs[K],t)]+[False]))
    return real_bearable(v,t)
ps._is_bearable=sym_bearable
f=dispatch.functions['inv']; f._resolve_pending_registrations()
A=SymOp('A'); al=SymAlg('alg')
D.pending=[[]]; results=[]
t=time.time()
while D.pending:
    D.prefix=D.pending.pop(); D.pos=0; D.pc=[]
    try:
        sig=f._resolver.resolve((A,al)); out=('ok',str(sig))
    except plum.resolver.AmbiguousLookupError as e: out=('AMBIG',None)
    except plum.resolver.NotFoundLookupError as e: out=('NOTFOUND',None)
    results.append((out,list(D.pc)))
print('paths',len(results),round(time.time()-t,2))
for out,pc in results:
    if out[0]!='ok':
        s=z3.Solver(); s.add(*pc); s.check(); m=s.model()
        print(out[0], m[A.k], m[al.k], [a for a in A.ann if z3.is_true(m.eval(A.ann[a]))], 'square=',m.eval(A.square))

"""probe: symbolic 2x2 orthogonal basis (Cayley) and complex Hermitian Lanczos with concrete unitary basis"""
import numpy as np, z3, time, sys
from fractions import Fraction as F
import sx2 as sx; from sx2 import *
sx.install()
import cola
from cola.linalg.decompositions.lanczos import lanczos
def run(Qo,n,cplx=False):
    al=[var(f"al{i}",1.0+0.7*i) for i in range(n)]; be=[var(f"be{i}",0.5+0.3*i) for i in range(n-1)]
    s=var("s",2.0); tol=var('tol',1e-7)
    E.pc+= [r2z(s.re)>0,r2z(tol.re)>0]+[r2z(b.re)>0 for b in be]
    T=np.empty((n,n),dtype=object); T[:]=C(0)
    for i in range(n): T[i,i]=al[i]
    for i in range(n-1): T[i,i+1]=be[i]; T[i+1,i]=be[i]
    QH=np.frompyfunc(lambda x:C(x).conjugate(),1,1)(Qo).T
    ld='complex128' if cplx else 'float64'
    A=SymArray(Qo@T@QH,ld); v=SymArray(Qo[:,0]*s,ld)
    t=time.time()
    Qc,Tc,info=lanczos(cola.SelfAdjoint(cola.ops.Dense(A)),v,max_iters=n,tol=tol)
    Qd=Qc.to_dense(); Td=Tc.to_dense(); k=Qd.shape[1]
    bad=sum(1 for i in range(n) for j in range(k) if not ((d:=C(Qd.raw[i,j])-Qo[i,j]).re.is_zero() and d.im.is_zero()))
    bad+=sum(1 for i in range(k) for j in range(k) if not ((d:=C(Td.raw[i,j])-T[i,j]).re.is_zero() and d.im.is_zero()))
    print('n',n,'cplx',cplx,'ran',round(time.time()-t,2),'forks',E.forks,'defs',len(E.defs),'non-identical',bad, 'Tdtype',Td.dtype)
# (1) symbolic rotation via Cayley: c=(1-t^2)/(1+t^2), sn=2t/(1+t^2)
E.reset()
t_=var('t',0.3); one=C(1)
c=(one-t_*t_)/(one+t_*t_); sn=(2*t_)/(one+t_*t_)
Qo=np.array([[c,-sn],[sn,c]],dtype=object)
run(Qo,2)
# (2) complex unitary concrete 3x3: Cayley of rational skew-Hermitian
import sympy
n=3
Sk=sympy.zeros(n); cnt=1
for i in range(n):
    Sk[i,i]=sympy.I*sympy.Rational(cnt,7)
    for j in range(i+1,n):
        z=sympy.Rational(cnt,cnt+2)+sympy.I*sympy.Rational(1,cnt+1); Sk[i,j]=z; Sk[j,i]=-sympy.conjugate(z); cnt+=1
U=((sympy.eye(n)-Sk)*(sympy.eye(n)+Sk).inv()).applyfunc(sympy.nsimplify)
assert sympy.simplify(U.H*U-sympy.eye(n))==sympy.zeros(n)
def cv(z):
    re,im=sympy.re(z),sympy.im(z); return S(Rat.const(F(int(re.p),int(re.q))),Rat.const(F(int(im.p),int(im.q))))
Qo=np.array([[cv(U[i,j]) for j in range(n)] for i in range(n)],dtype=object)
E.reset(); run(Qo,3,cplx=True)

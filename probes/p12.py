import numpy as np, z3, time, sys
from fractions import Fraction as F
import sx2 as sx; from sx2 import *
sx.install()
from cola.backends import np_fns
import cola
from p8util import ratQ
# extra stubs
def vmap(fun,in_axes=0,out_axes=0):
    def g(*args):
        leaves,tree=np_fns.tree_flatten(args)
        b=leaves[0].shape[0]
        outs=[]
        for i in range(b):
            a_i=np_fns.tree_unflatten(tree,[l[i] for l in leaves])
            outs.append(fun(*a_i))
        ol,ot=zip(*[np_fns.tree_flatten(o) for o in outs])
        stacked=[np.stack([ol[i][j] for i in range(b)],axis=0) for j in range(len(ol[0]))]
        return np_fns.tree_unflatten(ot[0],stacked)
    return g
np_fns.vmap=vmap
def gauss_solve(A,B):
    A=np.array(A.raw if isinstance(A,SymArray) else A,dtype=object).copy(); B=np.array(B.raw if isinstance(B,SymArray) else B,dtype=object).copy()
    n=A.shape[0]
    for i in range(n):
        # pivot: first structurally nonzero
        p=next(r for r in range(i,n) if not (C(A[r,i]).re.is_zero() and C(A[r,i]).im.is_zero()))
        if p!=i: A[[i,p]]=A[[p,i]]; B[[i,p]]=B[[p,i]]
        for j in range(i+1,n):
            f=A[j,i]/A[i,i]; A[j,:]=A[j,:]-f*A[i,:]; B[j,:]=B[j,:]-f*B[i,:]
    X=np.empty_like(B)
    for i in reversed(range(n)):
        acc=B[i,:].copy()
        for j in range(i+1,n): acc=acc-A[i,j]*X[j,:]
        X[i,:]=acc/A[i,i]
    return X
def solve(A,B):
    if A.ndim==3: return SymArray(np.stack([gauss_solve(A[i],B[i]) for i in range(A.shape[0])]),A.dtype)
    return SymArray(gauss_solve(A,B),A.dtype)
np_fns.solve=solve
def clip(x,a_min=None,a_max=None):
    f=lambda t: ite(C(t)<C(a_min),C(a_min),t) if a_min is not None else t
    if isinstance(x,SymArray): return SymArray(np.frompyfunc(f,1,1)(x.raw),x.dtype)
    return f(x)
np_fns.clip=clip
np_fns.ones_like=lambda x: lift(np.ones(x.shape,x.dtype))
_mx=np_fns.max
def mx(x,axis=None,keepdims=False): return _mx(x,axis=axis,keepdims=keepdims)
np_fns.max=mx
from cola.linalg.inverse.gmres import gmres
n=int(sys.argv[1]); m=int(sys.argv[2])
Q=ratQ(n); Qo=np.frompyfunc(C,1,1)(Q)
E.reset()
H=np.empty((n,n),dtype=object); H[:]=C(0)
for i in range(n):
    for j in range(n):
        if i<=j: H[i,j]=var(f"h{i}{j}",1.0+0.3*i-0.2*j+ (2.0 if i==j else 0))
        elif i==j+1: H[i,j]=var(f"h{i}{j}",0.7+0.1*j); E.pc.append(r2z(H[i,j].re)>0)
s=var("s",2.0); tol=var('tol',1e-7); E.pc+=[r2z(s.re)>0,r2z(tol.re)>0]
A=SymArray(Qo@H@Qo.T,'float64'); b=SymArray(Qo[:,0]*s,'float64')
t=time.time()
x,info=gmres(cola.ops.Dense(A),b,max_iters=m,tol=tol)
print('ran',round(time.time()-t,2),'forks',E.forks,'defs',len(E.defs),x.shape)
for c in E.pc[3+n-1:]: print('   pc',c)
# oracle: y = argmin || s e1 - Hbar y ||, Hbar=(m+1)xm ; x = Q_m y
mm=min(m,n)
Hb=H[:min(mm+1,n),:mm]
G=Hb.T@Hb; rhs=(Hb.T[:,0]*s).reshape(-1,1)
y=gauss_solve(G,rhs)[:,0]
xo=Qo[:,:mm]@y
bad=[i for i in range(n) if not (C(x.raw[i])-xo[i]).re.is_zero()]
print('mismatch',bad, 'shadow x',[round(C(t).v.real,4) for t in x.raw])

"""Prototype 2: symbolic scalars with concrete shadow (concolic), z3 terms, sqrt memo + hints."""
import numpy as np, z3, math, cmath
from fractions import Fraction

class Eng:
    def __init__(s): s.reset(); s.hints=[]
    def reset(s): s.pc=[]; s.defs=[]; s.sq={}; s.n=0; s.forks=0
    def fresh(s,p): s.n+=1; return z3.Real(f"{p}!{s.n}")
E=Eng()

from rf import Poly,Rat,RULES,VARS,vidx,ONE as PONE
import rf
R0=Rat.const(0); R1=Rat.const(1)
Z3V={}
def zv(i):
    if i not in Z3V: Z3V[i]=z3.Real(VARS[i])
    return Z3V[i]
def p2z(p):
    if not p.t: return z3.RealVal(0)
    terms=[]
    for m,c in p.t.items():
        fs=[] if c==1 and m else [z3.RealVal(c)]
        for v,e in m: fs+= [zv(v)]*e
        t=fs[0]
        for f in fs[1:]: t=t*f
        terms.append(t)
    return z3.Sum(terms) if len(terms)>1 else terms[0]
def r2z(r):
    n=p2z(r.n)
    if not r.d: return n
    return n/p2z(r.denpoly())
SHADOW={}   # varidx -> float
def peval(p):
    tot=0.0
    for m,c in p.t.items():
        t=float(c)
        for v,e in m: t*=SHADOW[v]**e
        tot+=t
    return tot
def reval(r):
    d=peval(r.denpoly()) if r.d else 1.0
    return peval(r.n)/d if d!=0 else float('nan')
class SB:
    __slots__=("e","v")
    def __init__(s,e,v): s.e=e; s.v=bool(v)
    def __and__(a,b):
        if not isinstance(b,SB): b=SB(z3.BoolVal(bool(b)),bool(b))
        return SB(z3.And(a.e,b.e),a.v and b.v)
    __rand__=__and__
    def __or__(a,b):
        if not isinstance(b,SB): b=SB(z3.BoolVal(bool(b)),bool(b))
        return SB(z3.Or(a.e,b.e),a.v or b.v)
    __ror__=__or__
    def __invert__(a): return SB(z3.Not(a.e),not a.v)
    def __bool__(s):
        e=z3.simplify(s.e)
        if z3.is_true(e): return True
        if z3.is_false(e): return False
        E.forks+=1; E.pc.append(e if s.v else z3.Not(e)); return s.v
    def __repr__(s): return f"SB({s.v})"
NUM=(int,float,complex,Fraction,np.number,bool,np.bool_)
def C(x):
    if isinstance(x,S): return x
    if isinstance(x,SB):
        g=gen('ite',lambda v:E.defs.append(v==z3.If(x.e,1.0,0.0)),1.0 if x.v else 0.0); return g
    if isinstance(x,(complex,np.complexfloating)): return S(Rat.const(Fraction(x.real)),Rat.const(Fraction(x.imag)))
    return S(Rat.const(Fraction(x)),R0)
def gen(prefix,definer,val):
    E.n+=1; name=f"{prefix}!{E.n}"; i=vidx(name); SHADOW[i]=float(val); definer(zv(i)); return S(Rat.var(name),R0)
class S:
    __slots__=("re","im")
    def __init__(s,re,im=R0): s.re=re; s.im=im
    @property
    def v(s): return complex(reval(s.re),reval(s.im))
    def __add__(a,b):
        if not isinstance(b,(S,)+NUM): return NotImplemented
        b=C(b); return S(a.re+b.re,a.im+b.im)
    __radd__=__add__
    def __neg__(a): return S(-a.re,-a.im)
    def __pos__(a): return a
    def __sub__(a,b):
        if not isinstance(b,(S,)+NUM): return NotImplemented
        return a+(-C(b))
    def __rsub__(a,b): return C(b)+(-a)
    def __mul__(a,b):
        if not isinstance(b,(S,SB)+NUM): return NotImplemented
        b=C(b)
        if a.im.is_zero() and b.im.is_zero(): return S(a.re*b.re)
        return S(a.re*b.re-a.im*b.im, a.re*b.im+a.im*b.re)
    __rmul__=__mul__
    def __truediv__(a,b):
        if not isinstance(b,(S,)+NUM): return NotImplemented
        b=C(b)
        if b.im.is_zero():
            i=b.re.inv(); return S(a.re*i,a.im*i)
        d=(b.re*b.re+b.im*b.im).inv(); n=a*b.conjugate(); return S(n.re*d,n.im*d)
    def __rtruediv__(a,b): return C(b)/a
    def __pow__(a,k):
        if isinstance(k,S) and k.re.is_const() and k.im.is_zero(): k=k.re.cval()
        if isinstance(k,(float,Fraction,np.floating)) and k==int(k): k=int(k)
        if isinstance(k,(int,np.integer)):
            if k<0: return C(1)/(a**(-k))
            r=C(1)
            for _ in range(int(k)): r=r*a
            return r
        if k==0.5: return a.sqrt()
        raise NotImplementedError(k)
    def conjugate(a): return S(a.re,-a.im)
    conj=conjugate
    @property
    def real(a): return S(a.re)
    @property
    def imag(a): return S(a.im)
    def nonneg(a):
        s=z3.Solver(); s.set('timeout',5000); s.add(*E.pc,*E.defs); s.add(r2z(a.re)<0); return str(s.check())=='unsat'
    def __abs__(a):
        if a.im.is_zero():
            if a.re.is_const(): return C(abs(a.re.cval()))
            if FORK_ITE: return a if bool(a>=0) else -a
            if a.nonneg(): return a
            if (-a).nonneg(): return -a
            z=r2z(a.re); g=gen('abs',lambda v:E.defs.append(v==z3.If(z>=0,z,-z)),abs(a.v)); 
            if not a.re.d: RULES[vidx(VARS[list(g.re.n.vars())[0]])]=(a.re*a.re).n
            return g
        return (a*a.conjugate()).real.sqrt()
    def sqrt(a):
        assert a.im.is_zero()
        r=a.re
        if r.is_zero(): return C(0)
        if r.is_const():
            f=r.cval(); n,d=math.isqrt(f.numerator),math.isqrt(f.denominator)
            if f>=0 and n*n==f.numerator and d*d==f.denominator: return C(Fraction(n,d))
        # perfect-square monomial numerator & denominator?
        def msqrt(p):
            if len(p.t)!=1: return None
            (m,c),=p.t.items()
            if c<0 or any(e%2 for v,e in m): return None
            n,d=math.isqrt(c.numerator),math.isqrt(c.denominator)
            if n*n!=c.numerator or d*d!=c.denominator: return None
            return Poly({tuple((v,e//2) for v,e in m):Fraction(n,d)})
        ns=msqrt(r.n); ds=msqrt(r.denpoly()) if r.d else PONE
        if ns is not None and ds is not None:
            cand=S(Rat(ns)/Rat(ds)) if r.d else S(Rat(ns))
            return abs(cand)
        key=hash(r)
        if key in E.sq: return E.sq[key]
        # sqrt(n/d) = sqrt(n*d)/d
        nd=r.n*r.denpoly() if r.d else r.n
        z=p2z(nd)
        g=gen('sqrt',lambda v:E.defs.append(z3.And(v>=0,v*v==z)),math.sqrt(max(reval(Rat(nd)),0)))
        RULES[list(g.re.n.vars())[0]]=nd
        out=g/S(Rat(r.denpoly())) if r.d else g
        E.sq[key]=out; return out
    def _cmp(a,b,op):
        b=C(b); return SB(op(r2z(a.re),r2z(b.re)),op(a.v.real,b.v.real))
    def __lt__(a,b): return a._cmp(b,lambda x,y:x<y)
    def __le__(a,b): return a._cmp(b,lambda x,y:x<=y)
    def __gt__(a,b): return a._cmp(b,lambda x,y:x>y)
    def __ge__(a,b): return a._cmp(b,lambda x,y:x>=y)
    def __eq__(a,b):
        if not isinstance(b,(S,)+NUM): return NotImplemented
        b=C(b); d=a-b
        if d.re.is_zero() and d.im.is_zero(): return SB(z3.BoolVal(True),True)
        return SB(z3.And(p2z(d.re.n)==0,p2z(d.im.n)==0),abs(d.v)==0)
    def __ne__(a,b): return ~(a==b)
    __hash__=None
    def __repr__(a): return f"S({a.re},{a.im})"
    def __float__(a): return a.v.real
def var(name,val):
    i=vidx(name); SHADOW[i]=float(val); return S(Rat.var(name))
class SymArray(np.ndarray):
    def __new__(cls,objarr,ld):
        o=np.asarray(objarr,dtype=object).view(cls); o._ld=np.dtype(ld); return o
    def __array_finalize__(self,obj): self._ld=getattr(obj,'_ld',np.dtype('float64'))
    @property
    def dtype(self): return self._ld
    @property
    def raw(self): return self.view(np.ndarray)
    @property
    def real(self):
        r=np.frompyfunc(lambda x:C(x).real,1,1)(self.raw)
        return SymArray(r,np.finfo(self._ld).dtype if self._ld.kind in 'fc' else self._ld)
    def astype(self,dt,**kw):
        dt=np.dtype(dt); o=self.raw.copy()
        if dt.kind=='f' and self._ld.kind=='c': o=np.frompyfunc(lambda x:C(x).real,1,1)(o)
        return SymArray(o,dt)
    def conj(self): return np.conjugate(self)
    def __array_ufunc__(self,ufunc,method,*inputs,out=None,**kw):
        lds=[];raw=[]
        for x in inputs:
            if isinstance(x,SymArray): lds.append(x._ld); raw.append(x.raw)
            elif isinstance(x,np.ndarray): lds.append(x.dtype); raw.append(x.astype(object) if x.dtype!=object else x)
            elif isinstance(x,(S,SB)): raw.append(x)
            else: lds.append(x); raw.append(x)
        try: ld=np.result_type(*lds)
        except Exception: ld=np.dtype('float64')
        if ufunc in (np.greater,np.less,np.greater_equal,np.less_equal,np.equal,np.not_equal,np.logical_and,np.logical_or,np.logical_not): ld=np.dtype(bool)
        if ufunc is np.absolute and np.dtype(ld).kind=='c': ld=np.finfo(ld).dtype
        if ufunc is np.true_divide and np.dtype(ld).kind in 'iub': ld=np.dtype('float64')
        if ufunc is np.sqrt: ufunc=np.frompyfunc(lambda x:C(x).sqrt(),1,1)
        elif ufunc is np.conjugate: ufunc=np.frompyfunc(lambda x:C(x).conjugate(),1,1)
        elif ufunc is np.absolute: ufunc=np.frompyfunc(lambda x:abs(C(x)),1,1)
        elif ufunc is np.bitwise_and: ufunc=np.frompyfunc(lambda a,b:a&b,2,1)
        elif ufunc is np.bitwise_or: ufunc=np.frompyfunc(lambda a,b:a|b,2,1)
        elif ufunc is np.maximum: ufunc=np.frompyfunc(lambda a,b:ite(C(a)>=C(b),a,b),2,1)
        if out is not None: kw['out']=tuple(o.raw if isinstance(o,SymArray) else o for o in out)
        r=getattr(ufunc,method)(*raw,**kw)
        if out is not None: return out[0]
        if isinstance(r,np.ndarray): return SymArray(r,ld)
        return r
    def __array_function__(self,func,types,args,kwargs):
        lds=[]
        def strip(x):
            if isinstance(x,SymArray): lds.append(x._ld); return x.raw
            if isinstance(x,(list,tuple)): return type(x)(strip(y) for y in x)
            return x
        a=strip(args); k={kk:strip(v) for kk,v in kwargs.items()}
        r=func(*a,**k)
        ld=np.result_type(*lds) if lds else np.dtype('float64')
        def wrap(x):
            if isinstance(x,np.ndarray) and x.dtype==object: return SymArray(x,ld)
            if isinstance(x,tuple): return tuple(wrap(y) for y in x)
            return x
        return wrap(r)
FORK_ITE=True
def ite(c,a,b):
    a=C(a); b=C(b)
    if isinstance(c,SB):
        ce=z3.simplify(c.e)
        if z3.is_true(ce): return a
        if z3.is_false(ce): return b
        if (a-b).re.is_zero() and (a-b).im.is_zero(): return a
        if FORK_ITE: return a if bool(c) else b
        za,zb=r2z(a.re),r2z(b.re)
        g=gen('ite',lambda v:E.defs.append(v==z3.If(ce,za,zb)),(a.v if c.v else b.v).real)
        if a.im.is_zero() and b.im.is_zero(): return g
        ia,ib=r2z(a.im),r2z(b.im)
        gi=gen('ite',lambda v:E.defs.append(v==z3.If(ce,ia,ib)),(a.v if c.v else b.v).imag)
        return S(g.re,gi.re)
    return a if c else b
def lift(x,ld=None):
    x=np.asarray(x)
    if x.ndim==0: return SymArray(np.array(C(x.item()),dtype=object), ld or x.dtype)
    return SymArray(np.frompyfunc(C,1,1)(x.astype(object)), ld or x.dtype)
def symarr(name,shape,vals,ld='float64'):
    vals=np.asarray(vals,dtype=float)
    a=np.empty(shape,dtype=object); vals=np.asarray(vals)
    for idx in np.ndindex(*shape): a[idx]=var(f"{name}_{'_'.join(map(str,idx))}",vals[idx])
    return SymArray(a,ld)

def install():
    from cola.backends import np_fns
    np_fns.zeros=lambda shape,dtype,device=None: lift(np.zeros(shape,dtype)) if np.dtype(dtype).kind in 'fc' else np.zeros(shape,dtype)
    np_fns.ones=lambda shape,dtype,device=None: lift(np.ones(shape,dtype))
    np_fns.eye=lambda n,m=None,dtype=None,device=None: lift(np.eye(n,m,dtype=dtype))
    _arr=np.array
    def array(arr,dtype=None,device=None):
        if isinstance(arr,S): return SymArray(np.array(arr,dtype=object),dtype or 'float64')
        if isinstance(arr,SymArray): return arr.astype(dtype) if dtype else arr
        a=_arr(arr,dtype=dtype)
        return lift(a) if a.dtype.kind in 'fc' else a
    np_fns.array=array
    def linear_transpose(fun,primals,duals):
        M=fun(np_fns.eye(primals.shape[0],primals.shape[0],dtype=primals.dtype)); return M.T@duals
    np_fns.linear_transpose=linear_transpose
    np_fns.zeros_like=lambda x: lift(np.zeros(x.shape,x.dtype))
    np_fns.copy=lambda x: x.copy()
    def where(c,a,b):
        c=c.raw if isinstance(c,SymArray) else np.asarray(c,dtype=object)
        lds=[x._ld if isinstance(x,SymArray) else (x.dtype if isinstance(x,np.ndarray) else x) for x in (a,b)]
        av=a.raw if isinstance(a,SymArray) else a; bv=b.raw if isinstance(b,SymArray) else b
        return SymArray(np.frompyfunc(ite,3,1)(c,av,bv),np.result_type(*lds))
    np_fns.where=where
    def norm(x,axis=None,keepdims=False,ord=None):
        v=x.raw if isinstance(x,SymArray) else np.asarray(x,dtype=object)
        sq=np.frompyfunc(lambda t:(C(t)*C(t).conjugate()).real,1,1)(v)
        s=np.sum(sq,axis=axis,keepdims=keepdims)
        r=np.frompyfunc(lambda t:C(t).sqrt(),1,1)(s)
        ld=np.finfo(x.dtype).dtype
        return SymArray(r,ld)
    np_fns.norm=norm
    def any_(x):
        v=np.asarray(x.raw if isinstance(x,SymArray) else x,dtype=object).ravel()
        r=SB(z3.BoolVal(False),False)
        for t in v: r=r|t
        return r
    np_fns.any=any_
    def mx(x,axis=None,keepdims=False):
        v=x.raw
        red=np.frompyfunc(lambda a,b:ite(C(a)>=C(b),a,b),2,1)
        return SymArray(red.reduce(v,axis=axis,keepdims=keepdims),x.dtype)
    np_fns.max=mx

import numpy as np, z3, time, sys
from fractions import Fraction as F
import sx2 as sx; from sx2 import *
sx.install()
import cola
from cola.linalg.inverse.cg import cg
from p8util import ratQ
n=int(sys.argv[1]); iters=int(sys.argv[2])
Q=ratQ(n); Qo=np.frompyfunc(C,1,1)(Q)
al=[var(f"al{i}",0.5+0.2*i) for i in range(n)]
rho=[C(1)]+[var(f"rho{i}",0.6/(i+1)) for i in range(1,n)]
s=var("s",2.0); tol=var('tol',1e-3)
E.reset()
E.pc+= [r2z(s.re)>0,r2z(tol.re)>0]+[r2z(a.re)>0 for a in al]+[r2z(r.re)>0 for r in rho[1:]]
T=np.empty((n,n),dtype=object); T[:]=C(0)
for k in range(n):
    T[k,k]=1/al[k]+((rho[k]*rho[k])/(rho[k-1]*rho[k-1])/al[k-1] if k>0 else 0)
    if k<n-1: T[k,k+1]=T[k+1,k]=-(rho[k+1]/rho[k])/al[k]
A=SymArray(Qo@T@Qo.T,'float64'); b=SymArray(Qo[:,0]*s,'float64')
t=time.time()
x,info=cg(cola.PSD(cola.ops.Dense(A)),b,tol=tol,max_iters=iters)
print('ran',round(time.time()-t,2),'forks',E.forks,'defs',len(E.defs),'iters',info['iterations'])
for c in E.pc[-(E.forks):]: print('  pc:',c)
# oracle: Krylov optimal
k=info['iterations']-1
Ar=A.raw; br=b.raw
K=[br]
for _ in range(k-1): K.append(Ar@K[-1])
K=np.stack(K,axis=1)            # n x k
G=K.T@Ar@K; rhs=K.T@br
# solve G y = rhs by gaussian elimination on S
G=G.copy(); rhs=rhs.copy()
t=time.time()
for i in range(k):
    piv=G[i,i]
    for j in range(i+1,k):
        f=G[j,i]/piv; G[j,:]=G[j,:]-f*G[i,:]; rhs[j]=rhs[j]-f*rhs[i]
y=[None]*k
for i in reversed(range(k)):
    acc=rhs[i]
    for j in range(i+1,k): acc=acc-G[i,j]*y[j]
    y[i]=acc/G[i,i]
xo=K@np.array(y,dtype=object)
print('oracle',round(time.time()-t,2))
bad=[i for i in range(n) if not (C(x.raw[i])-xo[i]).re.is_zero()]
print('k',k,'mismatch entries',bad)
sol=z3.Solver(); sol.set('timeout',60000); sol.add(*E.pc,*E.defs)
t=time.time(); print('pc feasible',sol.check(),round(time.time()-t,2))

import z3, time, sys
class Q:
    __slots__=("n","d")
    def __init__(s,n,d=None): s.n=n; s.d=d if d is not None else z3.RealVal(1)
    def __add__(a,b): 
        if a.d.eq(b.d): return Q(a.n+b.n,a.d)
        return Q(a.n*b.d+b.n*a.d,a.d*b.d)
    def __sub__(a,b):
        if a.d.eq(b.d): return Q(a.n-b.n,a.d)
        return Q(a.n*b.d-b.n*a.d,a.d*b.d)
    def __mul__(a,b): return Q(a.n*b.n,a.d*b.d)
    def __truediv__(a,b): return Q(a.n*b.d,a.d*b.n)
def run(n,k,diag=False,to=300):
    L=[[z3.Real(f"l{i}{j}") if j<=i else z3.RealVal(0) for j in range(n)] for i in range(n)]
    if diag: A=[[Q(z3.Real(f"d{i}")) if i==j else Q(z3.RealVal(0)) for j in range(n)] for i in range(n)]
    else:
        S=[[z3.Real(f"a{min(i,j)}{max(i,j)}") for j in range(n)] for i in range(n)]
        A=[[Q(S[i][j]) for j in range(n)] for i in range(n)]
    b=[Q(z3.Real(f"b{i}")) for i in range(n)]
    def sm(xs):
        r=xs[0]
        for y in xs[1:]: r=r+y
        return r
    mv=lambda M,v:[sm([M[i][j]*v[j] for j in range(n)]) for i in range(n)]
    dot=lambda u,v:sm([x*y for x,y in zip(u,v)])
    x=[Q(z3.RealVal(0))]*n; r=b; p=r; g=dot(r,r); dens=[]
    for it in range(k):
        Ap=mv(A,p); den=dot(p,Ap)
        al=g/den; dens.append(den.n)
        x=[xi+al*pi for xi,pi in zip(x,p)]
        r=[ri-al*api for ri,api in zip(r,Ap)]
        g1=dot(r,r); be=g1/g; dens.append(g.n)
        p=[ri+be*pi for ri,pi in zip(r,p)]; g=g1
    res=[bi-axi for bi,axi in zip(b,mv(A,x))]
    basis=[b]
    for _ in range(k-1): basis.append(mv(A,basis[-1]))
    s=z3.Solver(); s.set('timeout',to*1000)
    s.add(z3.Or([dot(res,v).n!=0 for v in basis]))
    t=time.time(); r_=s.check(); print(n,k,'diag' if diag else 'full',r_,round(time.time()-t,2),flush=True)
for a in sys.argv[1:]:
    n,k,d=a.split(','); run(int(n),int(k),d=='d',to=200)

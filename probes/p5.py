import z3, time, sys, itertools
def orth(n,name='v'):
    V=[[z3.Real(f"{name}{i}{j}") for j in range(n)] for i in range(n)]
    cons=[sum(V[k][i]*V[k][j] for k in range(n))==(1 if i==j else 0) for i in range(n) for j in range(i,n)]
    return V,cons
def mm(A,B): return [[sum(A[i][k]*B[k][j] for k in range(len(B))) for j in range(len(B[0]))] for i in range(len(A))]
def T(A): return [list(r) for r in zip(*A)]
def chk(name,hyp,goal_neg,to=120,tactic=None):
    s=z3.Solver() if tactic is None else z3.Then(*tactic).solver() if isinstance(tactic,tuple) else z3.Tactic(tactic).solver()
    s.set('timeout',to*1000); s.add(*hyp); s.add(goal_neg)
    t=time.time(); r=s.check(); print(name,r,round(time.time()-t,2),flush=True)
for n in (2,3):
    V,cons=orth(n); fw=[z3.Real(f"f{i}") for i in range(n)]
    D=[[fw[i] if i==j else 0 for j in range(n)] for i in range(n)]
    X=mm(mm(V,D),T(V))
    XV=mm(X,V); VD=mm(V,D)
    chk(f"eigh-unary n={n}",cons,z3.Or([XV[i][j]!=VD[i][j] for i in range(n) for j in range(n)]))
    # V V^T = I follows from V^T V = I (square): needed when checking X = sum f_i v_i v_i^T etc
    VVt=mm(V,T(V))
    chk(f"VVt=I n={n}",cons,z3.Or([VVt[i][j]!=(1 if i==j else 0) for i in range(n) for j in range(n)]))
# kron of orthogonals is orthogonal  (2x2 (x) 2x2)
V,c1=orth(2,'v'); W,c2=orth(2,'w')
K=[[V[i//2][j//2]*W[i%2][j%2] for j in range(4)] for i in range(4)]
KtK=mm(T(K),K)
chk("kron unitary 2x2",c1+c2,z3.Or([KtK[i][j]!=(1 if i==j else 0) for i in range(4) for j in range(4)]))
# PSD: sum of PSDs x^T(B1^T B1 + B2^T B2)x>=0, n=2
B1=[[z3.Real(f"p{i}{j}") for j in range(2)] for i in range(2)]; B2=[[z3.Real(f"q{i}{j}") for j in range(2)] for i in range(2)]
x=[[z3.Real("x0")],[z3.Real("x1")]]
M1=mm(T(B1),B1); M2=mm(T(B2),B2); M=[[M1[i][j]+M2[i][j] for j in range(2)] for i in range(2)]
q=mm(mm(T(x),M),x)[0][0]
chk("sum psd n=2",[],q<0)
c=z3.Real('c'); q2=mm(mm(T(x),[[c*M1[i][j] for j in range(2)] for i in range(2)]),x)[0][0]
chk("c*psd (expect sat)",[],q2<0)
# kron psd 2x2 (x) 2x2
K=[[M1[i//2][j//2]*M2[i%2][j%2] for j in range(4)] for i in range(4)]
y=[[z3.Real(f"y{i}")] for i in range(4)]
q3=mm(mm(T(y),K),y)[0][0]
chk("kron psd 2x2x2x2",[],q3<0,to=120)

"""Prototype 3: exact rational-function term layer (Poly / Rat with factored denominators)."""
from fractions import Fraction
import math
VARS=[]; VIDX={}; RULES={}   # RULES: varidx -> Poly p meaning var^2 == p
def vidx(name):
    if name not in VIDX: VIDX[name]=len(VARS); VARS.append(name)
    return VIDX[name]
class Poly:
    __slots__=("t","_k")
    def __init__(s,t): s.t=t; s._k=None
    @staticmethod
    def const(c): c=Fraction(c); return Poly({(): c} if c else {})
    @staticmethod
    def var(name): return Poly({((vidx(name),1),): Fraction(1)})
    def is_zero(s): return not s.t
    def is_const(s): return not s.t or (len(s.t)==1 and () in s.t)
    def cval(s): return s.t.get((),Fraction(0))
    def key(s):
        if s._k is None: s._k=tuple(sorted(s.t.items()))
        return s._k
    def __eq__(a,b): return a.t==b.t
    def __hash__(s): return hash(s.key())
    def __add__(a,b):
        if not a.t: return b
        if not b.t: return a
        t=dict(a.t)
        for m,c in b.t.items():
            v=t.get(m,0)+c
            if v: t[m]=v
            else: t.pop(m,None)
        return Poly(t)
    def __neg__(a): return Poly({m:-c for m,c in a.t.items()})
    def __sub__(a,b): return a+(-b)
    def scale(a,c):
        if not c: return Poly({})
        return Poly({m:v*c for m,v in a.t.items()})
    def __mul__(a,b):
        if not a.t or not b.t: return Poly({})
        if len(a.t)==1 and () in a.t: return b.scale(a.t[()])
        if len(b.t)==1 and () in b.t: return a.scale(b.t[()])
        t={}; need=False
        for m1,c1 in a.t.items():
            for m2,c2 in b.t.items():
                m=mmul(m1,m2)
                if RULES and any(v in RULES and e>=2 for v,e in m): need=True
                v=t.get(m,0)+c1*c2
                if v: t[m]=v
                else: t.pop(m,None)
        p=Poly(t)
        return p.reduce() if need else p
    def reduce(s):
        out=Poly({})
        for m,c in s.t.items():
            term=Poly({(): c}); rest=[]
            for v,e in m:
                if v in RULES and e>=2:
                    q,r=divmod(e,2); pw=RULES[v]
                    for _ in range(q): term=term*pw
                    if r: rest.append((v,1))
                else: rest.append((v,e))
            term=term*Poly({tuple(rest):Fraction(1)}) if rest else term
            out=out+term
        return out
    def lt(s):  # leading term, lex order (lowest var index most significant)
        m=max(s.t,key=lambda m:tuple((-v,e) for v,e in m)); return m,s.t[m]
    def divexact(a,b):
        """return a/b if exact else None"""
        if not a.t: return a
        if b.is_const(): return a.scale(1/b.cval())
        if len(b.t)==1:
            (mb,cb),=b.t.items(); t={}
            for m,c in a.t.items():
                q=mdiv(m,mb)
                if q is None: return None
                t[q]=c/cb
            return Poly(t)
        q=Poly({}); r=a; mb,cb=b.lt(); steps=0
        while r.t:
            mr,cr=r.lt(); d=mdiv(mr,mb)
            if d is None: return None
            term=Poly({d:cr/cb}); q=q+term; r=r-term*b; steps+=1
            if steps>5000: return None
        return q
    def vars(s): return {v for m in s.t for v,_ in m}
    def __repr__(s):
        if not s.t: return "0"
        return " + ".join((str(c) if not m else (("" if c==1 else str(c)+"*")+"*".join(VARS[v]+("^%d"%e if e>1 else "") for v,e in m))) for m,c in sorted(s.t.items()))
def mmul(m1,m2):
    if not m1: return m2
    if not m2: return m1
    d=dict(m1)
    for v,e in m2: d[v]=d.get(v,0)+e
    return tuple(sorted(d.items()))
def mdiv(m1,m2):
    d=dict(m1)
    for v,e in m2:
        if d.get(v,0)<e: return None
        d[v]-=e
        if not d[v]: del d[v]
    return tuple(sorted(d.items()))
ONE=Poly.const(1); ZEROP=Poly({})
class Rat:
    """num / prod(f^k for f,k in den)  ; den factors are non-constant Polys normalised to lt-coeff 1"""
    __slots__=("n","d")
    def __init__(s,n,d=None): s.n=n; s.d=d or {}
    @staticmethod
    def const(c): return Rat(Poly.const(c))
    @staticmethod
    def var(name): return Rat(Poly.var(name))
    def is_zero(s): return s.n.is_zero()
    def is_const(s): return not s.d and s.n.is_const()
    def cval(s): return s.n.cval()
    def denpoly(s):
        p=ONE
        for f,k in s.d.items():
            for _ in range(k): p=p*f
        return p
    @staticmethod
    def make(n,d):
        # cancel
        if n.is_zero(): return Rat(ZEROP)
        d=dict(d)
        # apply sqrt rules in denominator: r^2 -> p
        for f in list(d):
            if len(f.t)==1:
                (m,c),=f.t.items()
                if len(m)==1 and m[0][1]==1 and m[0][0] in RULES and d[f]>=2:
                    k=d[f]; q,r=divmod(k,2); p=RULES[m[0][0]]
                    if r: d[f]=r
                    else: del d[f]
                    mm,cc=p.lt(); n=n.scale(1/cc**q); p1=p.scale(1/cc)
                    if p1.is_const(): n=n.scale(1/p1.cval()**q)
                    else: d[p1]=d.get(p1,0)+q
        for f in list(d):
            while d.get(f,0)>0:
                q=n.divexact(f)
                if q is None: break
                n=q; d[f]-=1
            if d.get(f)==0: del d[f]
        return Rat(n,d)
    def __add__(a,b):
        if a.n.is_zero(): return b
        if b.n.is_zero(): return a
        if a.d==b.d: return Rat.make(a.n+b.n,a.d) if a.d else Rat(a.n+b.n)
        L=dict(a.d)
        for f,k in b.d.items(): L[f]=max(L.get(f,0),k)
        na=a.n; nb=b.n
        for f,k in L.items():
            for _ in range(k-a.d.get(f,0)): na=na*f
            for _ in range(k-b.d.get(f,0)): nb=nb*f
        return Rat.make(na+nb,L)
    def __neg__(a): return Rat(-a.n,a.d)
    def __sub__(a,b): return a+(-b)
    def __mul__(a,b):
        if a.n.is_zero() or b.n.is_zero(): return Rat(ZEROP)
        if not a.d and not b.d: return Rat(a.n*b.n)
        d=dict(a.d)
        for f,k in b.d.items(): d[f]=d.get(f,0)+k
        # cross-cancel before multiplying
        na,nb=a.n,b.n
        for f in list(d):
            while d.get(f,0)>0:
                q=na.divexact(f)
                if q is not None: na=q; d[f]-=1; continue
                q=nb.divexact(f)
                if q is not None: nb=q; d[f]-=1; continue
                break
            if d.get(f)==0: del d[f]
        return Rat(na*nb,d)
    def inv(a):
        assert not a.n.is_zero(), "division by exact zero"
        # 1/a = den / num ; factor num trivially: content + primitive
        n=a.denpoly()
        num=a.n
        if num.is_const(): return Rat(n.scale(1/num.cval()))
        m,c=num.lt(); num1=num.scale(1/c); n=n.scale(1/c)
        # split off monomial content of num1
        d={}
        if len(num1.t)>=1:
            g=None
            for mm in num1.t:
                dd=dict(mm)
                g=dd if g is None else {v:min(e,dd.get(v,0)) for v,e in g.items() if dd.get(v,0)>0}
                if not g: break
            if g:
                gm=tuple(sorted(g.items())); num1=num1.divexact(Poly({gm:Fraction(1)}))
                for v,e in g.items(): d[Poly({((v,1),):Fraction(1)})]=e
        if num1.is_const(): n=n.scale(1/num1.cval())
        else: d[num1]=d.get(num1,0)+1
        return Rat.make(n,d)
    def __truediv__(a,b): return a*b.inv()
    def __eq__(a,b): return (a-b).is_zero()
    def __hash__(s): return hash((s.n,tuple(sorted((f.key(),k) for f,k in s.d.items()))))
    def __repr__(s): return f"({s.n})" + ("/"+"*".join(f"({f})^{k}" for f,k in s.d.items()) if s.d else "")
if __name__=="__main__":
    x,y,s=Rat.var('x'),Rat.var('y'),Rat.var('s')
    print((s*x)/s, (x*x-y*y)/(x-y), x/(x+y)+y/(x+y), Rat.const(1)/x - Rat.const(1)/(x*(x+Rat.const(1))))
    r=vidx('r'); RULES[r]=(x*x+y*y).n
    R=Rat.var('r'); print(R*R, (x/R)*(x/R)+(y/R)*(y/R))

"""probe: shape-symbolic execution (C19) of real Kronecker/BlockDiag/Product/Sum/Diagonal _matmat"""
import numpy as np, z3, time
from rf import Poly, Rat, VARS, vidx
import cola
from cola.backends import np_fns
from cola.ops import *
ALLOC=[]
class Dim:
    """symbolic positive integer dimension as Poly"""
    def __init__(s,p): s.p=p if isinstance(p,Poly) else Poly.const(p)
    @staticmethod
    def w(o): return o if isinstance(o,Dim) else Dim(Poly.const(int(o)))
    def __mul__(a,b): return Dim(a.p*Dim.w(b).p)
    __rmul__=__mul__
    def __add__(a,b): return Dim(a.p+Dim.w(b).p)
    __radd__=__add__
    def __sub__(a,b): return Dim(a.p-Dim.w(b).p)
    def __eq__(a,b):
        if not isinstance(b,(Dim,int,np.integer)): return NotImplemented
        return a.p==Dim.w(b).p      # syntactic (normal form); real engine: z3 validity + fork
    def __ne__(a,b): return not (a==b)
    def __hash__(s): return hash(s.p)
    def div(a,b):
        q=a.p.divexact(Dim.w(b).p); assert q is not None, f"reshape not exact: {a.p} / {b}"; return Dim(q)
    def __repr__(s): return repr(s.p)
    def __index__(s):
        assert s.p.is_const(); return int(s.p.cval())
def prod(ds):
    r=Dim(1)
    for d in ds: r=r*d
    return r
class ShapeArray:
    __array_priority__=1000
    def __init__(s,shape,dtype=np.float64,why='input'):
        s.shape=tuple(Dim.w(d) for d in shape); s.dtype=np.dtype(dtype)
        if why!='view': ALLOC.append((why,prod(s.shape)))
    ndim=property(lambda s:len(s.shape))
    def __len__(s): return s.shape[0]
    def reshape(s,*shape):
        if len(shape)==1 and isinstance(shape[0],(tuple,list)): shape=tuple(shape[0])
        tot=prod(s.shape); known=prod([d for d in shape if not (isinstance(d,int) and d==-1)])
        shape=tuple(tot.div(known) if (isinstance(d,int) and d==-1) else Dim.w(d) for d in shape)
        assert prod(shape)==tot, (shape,s.shape)
        return ShapeArray(shape,s.dtype,'view')
    @property
    def T(s): return ShapeArray(s.shape[::-1],s.dtype,'view')
    def astype(s,dt): return ShapeArray(s.shape,dt,'astype')
    def __matmul__(a,b):
        assert a.shape[-1]==b.shape[0], (a.shape,b.shape)
        return ShapeArray(a.shape[:-1]+b.shape[1:],np.result_type(a.dtype,b.dtype),'matmul')
    def _bin(a,b,why):
        if not isinstance(b,ShapeArray): return ShapeArray(a.shape,a.dtype,why)
        sa,sb=a.shape,b.shape; n=max(len(sa),len(sb)); sa=(Dim(1),)*(n-len(sa))+sa; sb=(Dim(1),)*(n-len(sb))+sb
        out=[]
        for x,y in zip(sa,sb):
            if x==y: out.append(x)
            elif x==1: out.append(y)
            elif y==1: out.append(x)
            else: raise AssertionError(('broadcast',sa,sb))
        return ShapeArray(tuple(out),np.result_type(a.dtype,b.dtype),why)
    def __mul__(a,b): return a._bin(b,'mul')
    __rmul__=__mul__
    def __add__(a,b): return a._bin(b,'add')
    __radd__=__add__
    def __iadd__(a,b): a._bin(b,'view'); return a
    def __getitem__(s,idx):
        if not isinstance(idx,tuple): idx=(idx,)
        out=[]; i=0
        for ix in idx:
            if ix is None: out.append(Dim(1)); continue
            if isinstance(ix,slice):
                lo=Dim.w(0 if ix.start is None else ix.start); hi=s.shape[i] if ix.stop is None else Dim.w(ix.stop)
                out.append(hi-lo); i+=1; continue
            i+=1
        out+=list(s.shape[i:])
        return ShapeArray(tuple(out),s.dtype,'view')
    def __array_function__(s,func,types,args,kwargs):
        if func is np.moveaxis:
            a,src,dst=args; sh=list(a.shape); d=sh.pop(src); sh.insert(dst,d); return ShapeArray(tuple(sh),a.dtype,'view')
        if func is np.concatenate:
            arrs=args[0]; ax=kwargs.get('axis',0); sh=list(arrs[0].shape); sh[ax]=sum((a.shape[ax] for a in arrs[1:]),arrs[0].shape[ax])
            return ShapeArray(tuple(sh),arrs[0].dtype,'concat')
        raise NotImplementedError(func)
np_fns.cast=lambda a,dt: a.astype(dt)
def D(name,r=None):
    return Dim(Poly.var(name))
n1,n2,n3,c=D('n1'),D('n2'),D('n3'),D('c')
def run(name,op,cols):
    ALLOC.clear(); X=ShapeArray((op.shape[-1],cols)); ALLOC.clear()
    Y=op@X
    print(name,'shape',op.shape,'->',Y.shape)
    for why,sz in ALLOC: print('    alloc',why,sz)
K=Kronecker(Dense(ShapeArray((n1,n1))),Dense(ShapeArray((n2,n2))),Dense(ShapeArray((n3,n3))))
run('Kronecker3',K,c)
B=BlockDiag(Dense(ShapeArray((n1,n1))),Dense(ShapeArray((n2,n2))),multiplicities=[2,3])
run('BlockDiag',B,c)
P=K@K; run('Product(K,K)',P,c)
S_=K+K; run('Sum',S_,c)
# the query z3 must decide: every alloc <= 4*n*c + max factor^2 ; never n^2
zn={v:z3.Int(v) for v in ('n1','n2','n3','c')}
def p2z(p):
    terms=[]
    for m,co in p.t.items():
        t=z3.IntVal(int(co))
        for v,e in m:
            for _ in range(e): t=t*zn[VARS[v]]
        terms.append(t)
    return z3.Sum(terms) if terms else z3.IntVal(0)
ALLOC.clear(); X=ShapeArray((K.shape[-1],c)); ALLOC.clear(); K@X
sol=z3.Solver(); sol.set('timeout',20000); sol.add(*[v>=1 for v in zn.values()])
N=zn['n1']*zn['n2']*zn['n3']
bound=2*N*zn['c']+zn['n1']*zn['n1']+zn['n2']*zn['n2']+zn['n3']*zn['n3']
sol.add(z3.Or([p2z(sz.p)>bound for _,sz in ALLOC]))
t=time.time(); print('exists alloc > bound ?',sol.check(),round(time.time()-t,2))
sol=z3.Solver(); sol.add(*[v>=1 for v in zn.values()]); sol.add(N*N>bound, zn['c']==1)
print('dense n^2 would exceed bound ?',sol.check())

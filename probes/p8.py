import numpy as np, z3, time, sys
from fractions import Fraction as F
import sx2 as sx; from sx2 import *
sx.install()
import cola
from cola.linalg.decompositions.lanczos import lanczos
n=int(sys.argv[1]); m=int(sys.argv[2])
import sympy
def ratQ(n):
    Sk=sympy.zeros(n); cnt=1
    for i in range(n):
        for j in range(i+1,n):
            Sk[i,j]=sympy.Rational(cnt,cnt+2); Sk[j,i]=-Sk[i,j]; cnt+=1
    Qs=(sympy.eye(n)-Sk)*(sympy.eye(n)+Sk).inv()
    return np.array([[F(int(Qs[i,j].p),int(Qs[i,j].q)) for j in range(n)] for i in range(n)],dtype=object)
Q=ratQ(n)
al=[var(f"al{i}",1.0+0.7*i) for i in range(n)]; be=[var(f"be{i}",0.5+0.3*i) for i in range(n-1)]
s=var("s",2.0); tol=var('tol',1e-7)
E.reset()
E.pc+= [r2z(s.re)>0,r2z(tol.re)>0]+[r2z(b.re)>0 for b in be]
T=np.empty((n,n),dtype=object); T[:]=C(0)
for i in range(n): T[i,i]=al[i]
for i in range(n-1): T[i,i+1]=be[i]; T[i+1,i]=be[i]
Qo=np.frompyfunc(C,1,1)(Q)
A=SymArray(Qo@T@Qo.T,'float64')
v=SymArray(Qo[:,0]*s,'float64')
t=time.time()
Qc,Tc,info=lanczos(cola.SelfAdjoint(cola.ops.Dense(A)),v,max_iters=m,tol=tol)
print('ran',round(time.time()-t,2),'forks',E.forks,'defs',len(E.defs),'Q',Qc.shape,'T',Tc.shape, 'iters',info['iterations'])
Qd=Qc.to_dense(); Td=Tc.to_dense()
k=Qd.shape[1]; bad=0
for i in range(n):
    for j in range(k):
        if not (Qd.raw[i,j]-Qo[i,j]).re.is_zero(): bad+=1
for i in range(k):
    for j in range(k):
        if not (C(Td.raw[i,j])-T[i,j]).re.is_zero(): bad+=1; print(i,j,Td.raw[i,j])
print('non-identical entries',bad)
for c in E.pc: print('  pc:',c)
sol=z3.Solver(); sol.set('timeout',60000); sol.add(*E.pc,*E.defs)
t=time.time(); print('pc feasible',sol.check(),round(time.time()-t,2))

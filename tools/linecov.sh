#!/bin/bash
# dev aid: line coverage of /repo/cola by the symbolic runs of the listed checks (default all), quick tier.  usage: tools/linecov.sh [C01 ...]
D=/tmp/linecov; rm -rf $D; mkdir -p $D
cd /verif
P=${@:-C01 C02 C03 C04 C05 C06 C07 C08 C09 C10 C11 C12 C13 C14 C15 C16 C17 C18 C19 C20}
for p in $P; do SYMX_LINECOV=$D ./check $p --tier ${TIER:-quick} --no-evidence 2>&1 | tail -1; done
/venv/bin/python tools/linecov_report.py $D

#!/bin/bash
# dev helper (not used by any registered command): apply a seeded patch in a scratch worktree of /repo HEAD and run the listed checks
# against that worktree (PYTHONPATH), without touching /repo.   usage: xrun.sh <seed-id> <PROP> [PROP ...]
id=$1; shift
W=/tmp/mx/$id
mkdir -p /tmp/mx
git -C /repo worktree remove --force $W >/dev/null 2>&1
git -C /repo worktree add -q --detach $W HEAD || exit 3
( cd $W && git apply /verif/seeded/$id/patch.diff ) || { echo "$id patch does not apply"; git -C /repo worktree remove --force $W; exit 3; }
cd /verif
export PYTHONPATH=/verif:$W PYTHONDONTWRITEBYTECODE=1 PYTHONHASHSEED=0 OMP_NUM_THREADS=1 OPENBLAS_NUM_THREADS=1 MKL_NUM_THREADS=1
for p in "$@"; do
  out=$(/verif/.venv/bin/python -m symx.driver $p --no-evidence --jobs ${XJOBS:-6} 2>&1 | grep -v WARNING)
  rc=$(echo "$out" | tail -1 | sed 's/.*exit=//')
  first=$(echo "$out" | grep -A1 "^VIOLATION" | grep "case=" | head -1 | cut -c1-170)
  echo "$id $p exit=$rc $first"
done
git -C /repo worktree remove --force $W >/dev/null 2>&1

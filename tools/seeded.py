#!/usr/bin/env python3
"""Seeded-change bookkeeping.
  seeded.py import <worktree> <PROP> [offset]  verify every <worktree>/_mut/<k> in a scratch worktree of /repo HEAD (patch applies,
                                         baseline 130/130, demo fails with / passes without) and copy it to /verif/seeded/<PROP>-<k>/
  seeded.py run <seed-id>|all [PROP ...]  apply the patch to /repo, run ./check <PROP> --tier quick for the listed properties
                                         (default: the property the seed targets), undo, record the outcome in meta.json
"""
import json, os, shutil, subprocess, sys, time
V = "/verif"
SCR = "/tmp/seedscratch"


def sh(cmd, cwd=None, timeout=3600):
    p = subprocess.run(cmd, shell=True, cwd=cwd, capture_output=True, text=True, timeout=timeout)
    return p.returncode, p.stdout + p.stderr


def scratch():
    if os.path.isdir(SCR):
        sh(f"git -C /repo worktree remove --force {SCR}")
        shutil.rmtree(SCR, ignore_errors=True)
    rc, out = sh(f"git -C /repo worktree add -q --detach {SCR} HEAD")
    assert rc == 0, out


def drop_scratch():
    sh(f"git -C /repo worktree remove --force {SCR}")
    shutil.rmtree(SCR, ignore_errors=True)
    sh("git -C /repo worktree prune")


def do_import(wt, prop, offset=0):
    mut = os.path.join(wt, "_mut")
    for k in sorted(os.listdir(mut)):
        d = os.path.join(mut, k)
        if not os.path.exists(os.path.join(d, "patch.diff")):
            continue
        sid = f"{prop}-{int(k) + offset}"
        scratch()
        rec = dict(id=sid, property=prop, source=f"sub-agent working in {wt} with only the property text", steps=[])
        rc, out = sh(f"git apply --check {d}/patch.diff && git apply {d}/patch.diff", cwd=SCR)
        rec["applies_to_head"] = rc == 0
        if rc != 0:
            rc3, out3 = sh(f"git apply -3 {d}/patch.diff", cwd=SCR)
            rec["applies_with_3way"] = rc3 == 0
            if rc3 != 0:
                rec["steps"].append("patch does not apply to the current /repo HEAD: " + out[-300:])
                print(sid, "PATCH DOES NOT APPLY", out[-300:])
                _save(sid, d, rec)
                continue
        rc, out = sh(f"{V}/tools/baseline.sh {SCR}")
        rec["baseline_with_change"] = out.strip().splitlines()[0] if out.strip() else "?"
        shutil.copytree(d, os.path.join(SCR, "_mut", k), dirs_exist_ok=True)
        rc_w, out_w = sh(f"/venv/bin/python _mut/{k}/demo.py", cwd=SCR, timeout=900)
        sh("git reset -q --hard HEAD", cwd=SCR)
        rc_o, out_o = sh(f"/venv/bin/python _mut/{k}/demo.py", cwd=SCR, timeout=900)
        rec["demo_exit_with_change"] = rc_w
        rec["demo_exit_without_change"] = rc_o
        rec["demo_tail_with_change"] = out_w[-400:]
        rec["confirmed"] = bool(rec["baseline_with_change"].startswith("PASS") and rc_w != 0 and rc_o == 0)
        rec["steps"].append("scratch worktree of /repo HEAD: git apply patch.diff; tools/baseline.sh; demo.py with and without the change")
        print(sid, "confirmed" if rec["confirmed"] else "NOT CONFIRMED", rec["baseline_with_change"], "demo with/without:", rc_w, rc_o)
        _save(sid, d, rec)
    drop_scratch()


def _save(sid, d, rec):
    dst = os.path.join(V, "seeded", sid)
    os.makedirs(dst, exist_ok=True)
    for f in ("patch.diff", "demo.py", "notes.md"):
        if os.path.exists(os.path.join(d, f)):
            shutil.copy(os.path.join(d, f), os.path.join(dst, f))
    if os.path.exists(os.path.join(d, "notes.md")):
        rec["needs_to_manifest"] = open(os.path.join(d, "notes.md")).read()[:1500]
    old = {}
    mp = os.path.join(dst, "meta.json")
    if os.path.exists(mp):
        old = json.load(open(mp))
    old.update(rec)
    json.dump(old, open(mp, "w"), indent=1)


def do_run(sid, props):
    dst = os.path.join(V, "seeded", sid)
    meta = json.load(open(os.path.join(dst, "meta.json")))
    props = props or [meta["property"]]
    rc, out = sh("git status --porcelain -- cola", cwd="/repo")
    assert out.strip() == "", "/repo has uncommitted changes: " + out
    rc, out = sh(f"git apply {dst}/patch.diff", cwd="/repo")
    if rc != 0:
        sh("git reset -q --hard HEAD", cwd="/repo")
        rc, out = 1, out
    if rc != 0:
        print(sid, "patch does not apply", out[-300:])
        return
    res = meta.setdefault("checks", {})
    try:
        for p in props:
            t0 = time.time()
            rc, out = sh(f"./check {p} --tier quick --no-evidence", cwd=V, timeout=3600)
            viol = [l for l in out.splitlines() if l.startswith("VIOLATION")]
            res[p] = dict(exit=rc, violations=len(viol), first=(out.splitlines()[out.splitlines().index(viol[0]) + 1][:300] if viol and out.splitlines().index(viol[0]) + 1 < len(out.splitlines()) else ""),
                          wall_s=round(time.time() - t0, 1), summary=out.strip().splitlines()[-1][:300] if out.strip() else "")
            print(sid, p, "exit", rc, "violations", len(viol), res[p]["first"][:160])
    finally:
        sh("git checkout -- .", cwd="/repo")
    meta["detected_by"] = sorted(p for p, r in res.items() if r["exit"] == 1)
    json.dump(meta, open(os.path.join(dst, "meta.json"), "w"), indent=1)


def do_runwt(sid, props, jobs=6):
    """like run, but in a scratch worktree of /repo HEAD selected through PYTHONPATH (several seeds can be examined in parallel and /repo
    itself is never modified); the checks are the same driver with the same arguments"""
    dst = os.path.join(V, "seeded", sid)
    meta = json.load(open(os.path.join(dst, "meta.json")))
    props = props or [meta["property"]]
    W = f"/tmp/mx/{sid}"
    os.makedirs("/tmp/mx", exist_ok=True)
    sh(f"git -C /repo worktree remove --force {W}")
    shutil.rmtree(W, ignore_errors=True)
    rc, out = sh(f"git -C /repo worktree add -q --detach {W} HEAD")
    assert rc == 0, out
    res = meta.setdefault("checks", {})
    try:
        rc, out = sh(f"git apply {dst}/patch.diff", cwd=W)
        if rc != 0:
            print(sid, "patch does not apply", out[-300:])
            return
        env = f"PYTHONPATH={V}:{W} PYTHONDONTWRITEBYTECODE=1 PYTHONHASHSEED=0 OMP_NUM_THREADS=1 OPENBLAS_NUM_THREADS=1 MKL_NUM_THREADS=1"
        for p in props:
            t0 = time.time()
            rc, out = sh(f"{env} {V}/.venv/bin/python -m symx.driver {p} --tier quick --no-evidence --jobs {jobs}", cwd=V, timeout=3600)
            lines = out.splitlines()
            viol = [l for l in lines if l.startswith("VIOLATION")]
            first = lines[lines.index(viol[0]) + 1][:300] if viol and lines.index(viol[0]) + 1 < len(lines) else ""
            res[p] = dict(exit=rc, violations=len(viol), first=first, wall_s=round(time.time() - t0, 1),
                          summary=out.strip().splitlines()[-1][:300] if out.strip() else "", how="scratch worktree via PYTHONPATH")
            print(sid, p, "exit", rc, "violations", len(viol), first[:160], flush=True)
    finally:
        sh(f"git -C /repo worktree remove --force {W}")
        shutil.rmtree(W, ignore_errors=True)
    meta["detected_by"] = sorted(p for p, r in res.items() if r["exit"] == 1)
    json.dump(meta, open(os.path.join(dst, "meta.json"), "w"), indent=1)


if __name__ == "__main__":
    if sys.argv[1] == "runwt":
        do_runwt(sys.argv[2], sys.argv[3:])
        sys.exit(0)
    if sys.argv[1] == "import":
        do_import(sys.argv[2], sys.argv[3], int(sys.argv[4]) if len(sys.argv) > 4 else 0)
    elif sys.argv[1] == "run":
        ids = sorted(os.listdir(os.path.join(V, "seeded"))) if sys.argv[2] == "all" else [sys.argv[2]]
        for i in ids:
            if os.path.exists(os.path.join(V, "seeded", i, "meta.json")):
                do_run(i, sys.argv[3:])

#!/bin/bash
# usage: tools_baseline.sh <repo dir>  -> prints PASS if exactly the 130 stable-pass tests of BASELINE.json pass
D=${1:-/repo}
OUT=$(mktemp /tmp/junit.XXXXXX.xml)
(cd "$D" && /venv/bin/python -m pytest -ra -q -p no:cacheprovider --timeout=900 --continue-on-collection-errors --junitxml=$OUT >/dev/null 2>&1)
/venv/bin/python - "$OUT" <<'PY'
import json, sys, xml.etree.ElementTree as ET
base = set(json.load(open('/root/.vp/BASELINE.json'))['stable_pass'])
passed = set()
for tc in ET.parse(sys.argv[1]).getroot().iter('testcase'):
    if not any(ch.tag in ('failure', 'error', 'skipped') for ch in tc):
        passed.add(f"{tc.get('classname')}::{tc.get('name')}")
missing = sorted(base - passed)
print("PASS" if not missing else "FAIL", len(base & passed), "/", len(base))
for m in missing[:10]:
    print("  missing:", m)
PY
rm -f $OUT

"""merge SYMX_LINECOV dumps and print, per file of /repo/cola, the executable lines no symbolic run reached (grouped by function)"""
import ast, glob, json, os, sys, dis, types
hit = set()
for f in glob.glob(os.path.join(sys.argv[1], "*.json")):
    for fn, ln in json.load(open(f)):
        hit.add((fn, ln))
skip = ("jax_fns", "torch_fns", "jax_tqdm", "utils_for_tests", "/tbd/", "custom_autodiff")
tot = cov = 0
for root, ds, fs in os.walk("/repo/cola"):
    for f in sorted(fs):
        p = os.path.join(root, f)
        if not f.endswith(".py") or any(s in p for s in skip):
            continue
        src = open(p).read()
        code = compile(src, p, "exec")
        lines = {}

        def walk(co, name):
            for _, _, ln in co.co_lines():
                if ln is not None and ln > 0:
                    lines.setdefault(ln, name)
            for c in co.co_consts:
                if isinstance(c, types.CodeType):
                    walk(c, c.co_name)
        walk(code, "<module>")
        # drop def/class/decorator/docstring lines executed at import
        miss = {}
        for ln, name in sorted(lines.items()):
            if name == "<module>":
                continue
            tot += 1
            if (p, ln) in hit:
                cov += 1
            else:
                miss.setdefault(name, []).append(ln)
        if miss:
            print(p.split("/repo/")[1])
            for name, ls in miss.items():
                print("   ", name, ls)
print(f"covered {cov} / {tot} function-body lines")

#!/bin/bash
# dev helper (not used by any registered command): apply a behaviour-preserving patch in a scratch worktree of /repo HEAD and run the
# checks whose code it touches (plus the listed ones) against that worktree.   usage: xref.sh <patch.diff> <tag> [PROP ...]
patch=$1; tag=$2; shift 2
W=/tmp/mx/ref_$tag
mkdir -p /tmp/mx
git -C /repo worktree remove --force $W >/dev/null 2>&1
git -C /repo worktree add -q --detach $W HEAD || exit 3
( cd $W && git apply $patch ) || { echo "$tag patch does not apply"; git -C /repo worktree remove --force $W; exit 3; }
props="$@"
files=$(grep '^+++ b/' $patch | sed 's#+++ b/##')
for f in $files; do
  case $f in
    cola/ops/*) props="$props C01 C02 C03 C20 C18 C05";;
    cola/fns.py) props="$props C03 C02 C04";;
    cola/annotations.py) props="$props C05 C02 C04";;
    cola/linalg/inverse/*) props="$props C06 C12 C13 C04 C16";;
    cola/linalg/decompositions/lanczos.py) props="$props C14 C09 C10 C07 C16 C05";;
    cola/linalg/decompositions/arnoldi.py) props="$props C15 C13 C09 C10 C05";;
    cola/linalg/decompositions/decompositions.py) props="$props C11 C07 C06 C04";;
    cola/linalg/trace/*) props="$props C08 C17 C07 C19";;
    cola/linalg/unary/*) props="$props C09 C04 C19";;
    cola/linalg/eig/*) props="$props C10 C05 C04 C17";;
    cola/linalg/logdet/*) props="$props C07 C04";;
    cola/linalg/svd/*) props="$props C16 C04";;
    cola/linalg/algorithm_base.py) props="$props C06 C12 C13 C04";;
    cola/backends/np_fns.py) props="$props C17 C01 C06 C11 C12 C14 C18";;
    cola/backends/*) props="$props C18 C01";;
    cola/utils/*) props="$props C04 C16 C01";;
    *) props="$props C01 C04";;
  esac
done
props=$(echo $props | tr ' ' '\n' | sort -u | tr '\n' ' ')
cd /verif
export PYTHONPATH=/verif:$W PYTHONDONTWRITEBYTECODE=1 PYTHONHASHSEED=0 OMP_NUM_THREADS=1 OPENBLAS_NUM_THREADS=1 MKL_NUM_THREADS=1
for p in $props; do
  out=$(/verif/.venv/bin/python -m symx.driver $p --no-evidence --jobs ${XJOBS:-8} 2>&1 | grep -v WARNING)
  rc=$(echo "$out" | tail -1 | sed 's/.*exit=//')
  if [ "$rc" != "0" ]; then
    first=$(echo "$out" | grep -A1 "^VIOLATION\|^INCONCL\|^HARNESS" | grep "case=" | head -2 | cut -c1-220 | tr '\n' '|')
    echo "$tag $p exit=$rc $first"
  else
    echo "$tag $p exit=0"
  fi
done
git -C /repo worktree remove --force $W >/dev/null 2>&1

# table consumed by gen_manifest.py
_TB = ("trusted: CPython, NumPy shape/indexing semantics on object arrays, z3 (cvc5 cross-check on a sample), symx term "
       "layer and LAPACK/FFT/vmap/linear_transpose stand-ins; exact arithmetic (no rounding); bounds as listed in the evidence")
CHECKS["C01"] = dict(
    text="bounded symbolic execution of the real __matmul__/_matmat/to_dense/densify of every operator kind on symbolic payloads; "
         "for every tree of the bound z3 proves, for all payload values, entrywise equality of the executed code's un-normalised "
         "term DAG with an independent index-formula reference (plus shape and promoted dtype)",
    note=_TB + "; Sparse/Jacobian/Hessian/ConvolveND outside (not constructible on the NumPy backend)",
    technique="symbolic execution of the Python source (SymArray payloads) + z3 validity queries on term-DAG equalities; "
              "counterexamples replayed on float NumPy")
for _p in ["C02","C03","C04","C05","C06","C07","C08","C09","C10","C11","C12","C13","C14","C15","C16","C17","C18","C19","C20"]:
    NA[_p] = "check under construction in this session (not yet registered); see DESIGN.md section 5 for the plan"

# table consumed by gen_manifest.py
_TB = ("trusted: CPython, NumPy shape/indexing semantics on object arrays, z3 (cvc5 cross-check on a sample), symx term "
       "layer and LAPACK/FFT/vmap/linear_transpose stand-ins; exact arithmetic (no rounding); bounds as listed in the evidence")
CHECKS["C01"] = dict(
    text="bounded symbolic execution of the real __matmul__/_matmat/to_dense/densify of every operator kind on symbolic payloads; "
         "for every tree of the bound z3 proves, for all payload values, entrywise equality of the executed code's un-normalised "
         "term DAG with an independent index-formula reference (plus shape and promoted dtype)",
    note=_TB + "; Sparse/Jacobian/Hessian/ConvolveND outside (not constructible on the NumPy backend)",
    technique="symbolic execution of the Python source (SymArray payloads) + z3 validity queries on term-DAG equalities; "
              "counterexamples replayed on float NumPy")
CHECKS["C02"] = dict(
    text="bounded symbolic execution of the real transpose/adjoint rewriting rules, Transpose/Adjoint wrappers and every explicit / generic "
         "_rmatmat on symbolic real and complex payloads (incl. true SelfAdjoint/PSD declarations and same-object A^T A patterns); z3 proves "
         "A.T, A.H, all .T/.H towers up to depth 3 and left products equal to M^T, conj(M)^T, X M for all payload values",
    note=_TB + "; generic _rmatmat goes through the harness' linear_transpose (its definition), so only the plumbing around it is verified there",
    technique="symbolic execution of the Python source + z3 validity queries on term-DAG equalities; counterexamples replayed on float NumPy")
CHECKS["C03"] = dict(
    text="every overload and functional combinator (+, -, unary -, scalar * and / on either side with python / 0-d scalars of every dtype, @, "
         "kron, kronsum, block_diag, sum(), lazify/densify/no_dispatch, nested re-association) executed on all ordered pairs of 20 operand "
         "kinds with symbolic payloads and symbolic scalars; z3 proves the result represents the un-simplified matrix expression for all "
         "values; every shape-mismatched pair must raise",
    note=_TB + "; shapes are enumerated (<= 3), not symbolic",
    technique="symbolic execution of the Python source + z3 validity queries on term-DAG equalities; counterexamples replayed on float NumPy")
CHECKS["C20"] = dict(
    text="the real __getitem__ / Sliced executed on 34 operator trees with symbolic payloads for every integer index in [-n, n), integer pairs, "
         "row/column extraction, slice pairs with negative start/stop/step and empty results, integer index arrays and list pairs; z3 proves "
         "scalars, vectors, sub-operator dense forms, sub-operator products (complex operands, both sides), second-level indexing and transposes equal "
         "the NumPy index expression on the reference matrix for all payload values",
    note=_TB + "; two index arrays are compared with the documented outer (np.ix_) semantics of Sliced",
    technique="symbolic execution of the Python source + z3 validity queries on term-DAG equalities; counterexamples replayed on float NumPy")
CHECKS["C08"] = dict(
    text="diag(A, k, alg) for every offset -n < k < n and trace(A, alg) with Exact(), Auto() and the omitted default executed on every leaf kind "
         "and 26 composite trees with symbolic payloads (structural rules and the real blocked probing exact_diag / get_I_chunk_like, incl. "
         "rule-less operators of size 100..320 around the block size); z3 proves equality with the reference diagonal for all payload values; "
         "a refusal is accepted only from a structural rule on an off-diagonal; 20 (quick) / 600 (thorough) seeded random square trees; which "
         "estimator the automatic default runs is an obligation of its own for sizes up to 3 * 10^5",
    note=_TB + "; the stochastic estimator is not executed here: its selection by the automatic default is itself reported and replayed",
    technique="symbolic execution of the Python source + z3 validity queries on term-DAG equalities; counterexamples replayed on float NumPy")
_KRY = ("; inputs are produced by an inverse parametrisation (A, v) := (Q T Q^H, s Q e1) that is onto the stated input class for the listed "
        "orthonormal bases (concrete generic rational Cayley bases for n >= 3, all plane rotations/reflections for n = 2); equalities "
        "are decided on exact rational-function normal forms, path conditions / stopping rules / coverage by z3")
CHECKS["C14"] = dict(
    text="the real lanczos / lanczos_fact / lanczos_eigs / Lanczos() executed on Krylov-parametrised Hermitian inputs with symbolic alpha_j, "
         "beta_j > 0, scale and tolerance: on every path (one per stopping index; exploration completeness is a z3 query) the returned Q, T equal "
         "the parameters truncated at the returned size, hence orthonormal basis, first column, Q^H A Q = T, residual only in the last column, "
         "non-negative off-diagonal, at most min(max_iters, n) columns, stop at an exhausted Krylov space; batched start vectors; Ritz pairs",
    note=_TB + _KRY + "; each path seed is also run on the real float code and any discrepancy is replayed (catches rounding-level defects)",
    technique="concolic symbolic execution of the Python source on exact rational-function terms; z3 decides path feasibility, branch flips and "
              "path-coverage completeness; float replay of every path seed")
CHECKS["C15"] = dict(
    text="the real arnoldi / arnoldi_fact / arnoldi_eigs / Arnoldi() executed on Krylov-parametrised inputs A = Q H Q^H (symbolic Hessenberg H with "
         "positive sub-diagonal, real and complex), v = s Q e1, symbolic tolerance: on every path the zero-padded Q, H equal the parameters "
         "truncated at the number of steps (Arnoldi relation, orthonormality, Hessenberg structure, non-negative sub-diagonal, zero padding "
         "for max_iters > n, stop at breakdown, steps <= min(max_iters, n)); batched start vectors with equal and different Krylov "
         "dimensions; arnoldi_eigs returns exactly the spectrum for n = 2 also with max_iters > n",
    note=_TB + _KRY + "; well-scaled inputs (sub-diagonal >= tol/2) are assumed, the tiny-scale behaviour is a recorded finding; Householder variant outside",
    technique="concolic symbolic execution of the Python source on exact rational-function terms; z3 decides path feasibility, branch flips, "
              "assumption seeds and path-coverage completeness; float replay of every path seed")
CHECKS["C12"] = dict(
    text="the real cg / run_batched_cg / while_loop_winfo / CG() / inv(A, CG()) executed on inputs built from the CG coefficients (A = Q T(alpha, rho) Q^T, "
         "b = s q0; block-diagonal variants with independent coefficients per right-hand side; b = A x0 + s q0 for initial guesses; C^-T A~ C^-1 for "
         "preconditioners): on every path (one per stopping index) the returned iterate equals the independent Krylov-optimal oracle "
         "x0 + K (K^H A K)^-1 K^H r0 for all parameter values; steps <= max_iters, products with A == steps + 1, zero column -> exact zero, "
         "linearity in b, exit <=> every column's recursive residual <= tol (1 + ||r0||/||b||) ||b|| proved by z3 from the path condition",
    note=_TB + _KRY + "; parameters within [1e-6, 1e6] (the 1e-40 division guards are never triggered); coverage of the x0 cases is partial (sqrt generators)",
    technique="concolic symbolic execution of the Python source on exact rational-function terms; z3 decides path feasibility, branch flips, the stopping-"
              "contract inequalities and path-coverage completeness; float replay of every path seed")
CHECKS["C13"] = dict(
    text="the real gmres / gmres_fwd / batched arnoldi (through the pytree vmap stand-in) / inv(A, GMRES()) executed on Krylov-parametrised inputs "
         "A = Q H Q^H, r0 = s Q e1 (symbolic sub-diagonal, scale, x0 scale; fully symbolic H for n = 2), max_iters from 1 beyond n, breakdown, two "
         "right-hand sides, block-diagonal batches with different Krylov dimension and magnitude, complex: on every explored path the iterate equals "
         "x0 + Q_m argmin || beta e1 - Hbar_m y || (normal equations of the full Hessenberg matrix, exact elimination), A x = b once m reaches the "
         "grade, products with A <= m + 1",
    note=_TB + _KRY + "; upper triangle of H is generic rational for n >= 3; path coverage partial (magnitude orderings inside the padding mask)",
    technique="concolic symbolic execution of the Python source on exact rational-function terms with exact LAPACK stand-ins; z3 decides path "
              "feasibility, branch flips and assumption seeds; float replay of every path seed")
CHECKS["C04"] = dict(
    text="symbolic execution of the real plum resolver (Resolver.resolve, Signature.match, signature ordering, precedence / condition bonus) and of "
         "the real rule conditions on proxy arguments whose operator kind, declared annotation, dtype class, factors-square flag and algorithm "
         "class are z3 finite-domain variables; for each of 22 dispatch functions and argument patterns every resolver path is explored "
         "(both directions of every branch checked by z3, so the exploration is complete) and the paths ending in Ambiguous / NotFound are "
         "enumerated into concrete lattice points; every lattice point is cross-validated against the real resolver on real instances; below the first "
         "level: the selected rule is executed on a small real instance of every kind / {none, PSD} / real / algorithm combination and on rule-less "
         "operators above 10^6 entries (the automatic rules' second dispatch): no call further down may end in a lookup error",
    note=_TB + "; 21 operator kinds x 5 annotation options x real/complex x factors-square x admissible algorithm classes; what the selected rule computes "
         "is out of scope, only that every (re-)dispatch resolves",
    technique="symbolic execution of the dispatcher's Python source over z3 finite sorts with complete path enumeration (solver-checked), plus "
              "exhaustive concrete enumeration of the same lattice as translator validation / replay")
CHECKS["C07"] = dict(
    text="slogdet / logdet executed on structural-rule trees (Diagonal, ScalarMul of every size, Identity, Triangular, permutations of both parities, "
         "Products of square and non-square factors, Kronecker with unequal factor sizes, BlockDiag with multiplicities, nestings), dense general "
         "inputs through the pivoted-LU stand-in (every pivot order is a solver-explored path) and dense Hermitian positive definite L L^H "
         "through Cholesky, real and complex, with log as an uninterpreted function: z3 proves sign * prod a_j^c_j == det (cofactor determinant), "
         "|sign| = 1 and positivity of the log arguments for all payload values",
    note=_TB + "; |x| of sign-unknown values is a generator g >= 0, g^2 = x^2 (no sign forks); Lanczos / Arnoldi log algorithms are outside (need an "
         "eigensolver model), their exact trace is covered by C08",
    technique="concolic symbolic execution of the Python source with exact rational-function terms, algebraic generators (abs, sqrt) and "
              "uninterpreted log; z3 decides the residual equalities, pivot-order path flips and positivity side conditions")
CHECKS["C11"] = dict(
    text="cholesky on A := L0 L0^H (dense, n <= 3, real and complex), positive Diagonal / ScalarMul, Identity, Kronecker (2-3 factors of unequal size), "
         "BlockDiag with multiplicities and mutual nestings; plu on free symbolic dense A (n <= 3, every pivot order a solver-explored path) and on the "
         "Identity / Diagonal / ScalarMul / Kronecker / BlockDiag rules: z3 proves L L^H == M, P L U == M, triangularity, P P^T = I, that every square "
         "root taken has a non-negative argument on the path, and the kinds of the returned operators (factor-wise structure) are checked",
    note=_TB + "; dense positive definite inputs are generated from their Cholesky factor (onto)",
    technique="concolic symbolic execution of the Python source on exact rational-function terms with sqrt generators and exact Cholesky / pivoted-LU "
              "stand-ins; z3 decides residuals, pivot-order flips and sqrt-domain obligations")
CHECKS["C06"] = dict(
    text="inv(A, alg) @ b / @ B, solve, b @ inv(A), inv(A).T @ b and inv(A).to_dense() executed on every structural inverse rule (Diagonal, ScalarMul, "
         "Identity, Permutation, Triangular, Product of square and non-square factors, Kronecker, BlockDiag with multiplicities, declared Unitary, "
         "nestings), dense general inputs (pivoted-LU stand-in, pivot orders as solver-explored paths, real / complex / float32), dense Hermitian "
         "positive definite inputs (Cholesky), the lazy CG / GMRES inverses on Krylov-parametrised inputs, and real operators with complex right-hand "
         "sides: z3 / exact normal forms prove M x == b and M inv(A).to_dense() == I for all payload values; both sides of the 10^6 Auto switch",
    note=_TB + "; iterative inverses are run to the full Krylov dimension (exact solve); on the large side of the Auto switch only the selection and the "
         "forwarding of the options are checked",
    technique="concolic symbolic execution of the Python source on exact rational-function terms with exact LAPACK stand-ins; z3 decides residuals and "
              "pivot-order path flips; float replay of every path seed")
CHECKS["C05"] = dict(
    text="for 12 leaves with true (parametrised) declarations and ~85 composites over every combinator (scalar multiples with positive / sign-free / complex "
         "symbolic scalars, sums, Kronecker, BlockDiag, products incl. the A^H A / A^T A patterns on identical and different objects, slices, "
         ".T/.H/Transpose/Adjoint) and for the outputs of lanczos, arnoldi and eig, every annotation the real inference rules report is turned into an "
         "obligation on the reference matrix: M == M^H, M^H M == I, M M^H == I, and positive semi-definiteness via a Gram certificate M == C^H C "
         "assembled along the tree or, without certificate, a z3 search for x with x^H M x < 0; declaring does not alter the operand",
    note=_TB + "; PSD without a certificate is only decided when z3 finishes (n <= 3)",
    technique="symbolic execution of the real annotation-inference rules / routines on symbolic payloads; z3 decides the matrix identities and the "
              "quadratic-form inequality; counterexamples replayed on float NumPy")
CHECKS["C09"] = dict(
    text="exp / log / sqrt / isqrt / pow / apply_unary executed on inputs given by their eigen-decomposition (Eigh: V diag(w) V^T with a symbolic rotation or "
         "rational basis; Eig: P diag(w) P^-1) with symbolic spectra, exp / log uninterpreted (with the sound rewrite exp(sum) = prod exp), half-integer powers as "
         "sqrt generators; every structural rule (Diagonal, ScalarMul, Identity, BlockDiag, Transpose, Adjoint incl. complex, exp(KronSum), pow(Kronecker)); "
         "integer-power shortcuts vs repeated products, pow(A,-1) vs inverse, sqrt(A) sqrt(A) v == A v; Lanczos / Arnoldi algorithm objects on "
         "Krylov-parametrised operands (also with max_iters beyond the Krylov dimension): the result applied to symbolic vectors equals the primary matrix "
         "function for all parameter values",
    note=_TB + "; LAPACK eigh / eig are served from the harness' registry (inverse parametrisation); Krylov dimension <= 2 for the Lanczos / Arnoldi paths",
    technique="concolic symbolic execution of the Python source on exact rational-function terms with uninterpreted exp / log, sqrt generators and registered "
              "eigen-decompositions; z3 decides residuals and mask / sort path flips; float replay of every path seed")
CHECKS["C10"] = dict(
    text="eig(A, k, which, alg) executed on inputs given by their eigen-decomposition with symbolic (definite and indefinite) spectra: Eigh under the LAPACK "
         "ascending-order contract, Eig under every output order of LAPACK, the Identity / Diagonal / Triangular (lower and upper) rules, Lanczos and "
         "Arnoldi algorithm objects with >= n iterations (real, complex, small-norm), power iteration / Auto k=1 / eigmax on rank-one PSD inputs: "
         "A V == V diag(lambda), orthonormal / non-zero vectors, the number of pairs, and the selection obligation |returned| >= |not returned| (LM) / <= (SM) "
         "as a pure inequality query over the symbolic spectrum decided by z3",
    note=_TB + "; LAPACK eigh / eig are served from the harness' registry; Krylov algorithms for n = 2; LOBPCG / IRAM outside",
    technique="concolic symbolic execution of the Python source on exact rational-function terms with registered eigen-decompositions; z3 decides the "
              "magnitude-ordering inequalities, sort / mask path flips and residual equalities; float replay of path seeds")
CHECKS["C16"] = dict(
    text="svd(A, k, which, alg) with DenseSVD() / the automatic default on inputs generated from their SVD (tall, wide, square, 1-row / 1-column; real "
         "and complex; symbolic singular values in LAPACK's descending contract order), and with a Lanczos algorithm object on 2x3 / 3x2 operators "
         "whose small Gram matrix is in Lanczos form: U Sigma V^H == A resp. the best rank-k approximation, U^H U == I, V^H V == I, Sigma a "
         "non-negative Diagonal; pinv(A) @ b / @ B (default, Auto(), LSTSQ(), Identity / ScalarMul / Diagonal / Permutation rules, real A with complex b) "
         "equals V diag(1/sigma) U^H b and satisfies the normal equations, for all parameter values",
    note=_TB + "; LAPACK svd / eigh are served from the harness' registry (inverse parametrisation); pinv through CG on the normal equations is "
         "checked up to a relative 1e-9 (z3 inequality; the library's rounding-level regulariser is not part of the property); one concrete 130 x 110 "
         "Lanczos-SVD case beyond the internal default of 100 steps runs on floats only; LOBPCG SVD outside",
    technique="symbolic execution of the Python source on exact rational-function terms with registered decompositions and an exact least-squares "
              "stand-in; z3 decides residuals and sort path flips; float replay of path seeds")
CHECKS["C18"] = dict(
    text="(a) every single operation and a seed-rotated sample of all ordered pairs (thorough: pairs and triples) of a 57-operation alphabet (products on both "
         "sides, .T/.H, algebra, annotation, indexing, densification, inv / solve, diag / trace, cg with a caller-owned initial guess, lanczos / arnoldi "
         "with caller-owned start vectors, matrix functions, decompositions) executed on a pool of 18 operators built from caller-owned symbolic arrays: "
         "afterwards every caller-owned array is entrywise identical to its snapshot (symbolic arrays alias exactly like ndarrays, so in-place updates "
         "are visible), every operator has the same dense form / annotations and repeating the first call gives the same result; (b) flatten / unflatten "
         "round trip, leaves == array parameters and leaf substitution for 26 trees, under 6 instantiation histories of the per-class attribute registry; "
         "(c) algorithm objects are inputs: for 10 (function, algorithm object) pairs the object's fields are unchanged by a call and reusing it on a larger "
         "operator equals a fresh object (float runs)",
    note=_TB + "; contents of the arrays used by the iterative solvers are concrete (their control flow depends on norms)",
    technique="symbolic execution of the Python source on aliasing-faithful symbolic arrays; entrywise identities decided on exact normal forms / z3; float "
              "replay of path seeds")
CHECKS["C17"] = dict(
    text="NumPy's process-wide random state modelled as an uninterpreted state machine (free initial state s0 = any history of user draws; Seed, Adv "
         "uninterpreted): for randn, Hutchinson estimation, diag / trace with Hutch, default start vectors of lanczos / arnoldi / power iteration, Nystrom, SLQ, "
         "randomized SVD and lobpcg, z3 proves the final state term equals s0, no draw happens from a state derived from s0, and two calls with the same key "
         "agree; Hutchinson with symbolic probes: exact on Diagonal operators with Rademacher probes (generators r^2 = 1), E[estimate] == k-th diagonal by "
         "moment substitution for all symbolic operators n <= 3 and all offsets, and never more than max_iters products (also through the Auto entry point); "
         "no two draws of one call start from the same generator state; private generators (RandomState(seed), default_rng(seed)) are modelled as their own chains",
    note=_TB + "; statistical quality of the generator and optional-stopping bias are outside; state-machine cases run the routines on the real numbers of a "
         "mirrored private RandomState",
    technique="symbolic state-machine model of the RNG decided by z3 over uninterpreted functions; symbolic execution of the Hutchinson loop on symbolic probes "
              "with exact moment substitution; replay on the real generator under several user-draw histories")
CHECKS["C19"] = dict(
    text="(i) the real _matmat of Kronecker (2-4 factors, also rectangular), KronSum, BlockDiag with multiplicities, Sum / Product with Diagonal, Identity, ScalarMul, "
         "Tridiagonal, Permutation executed on shape-symbolic arrays (dimensions are polynomials over positive integer variables): z3 proves for ALL factor sizes and "
         "column counts that every allocation is <= 2 n c + sum n_i^2 while n^2 exceeds that bound; (ii) symbolic execution of the real dispatch resolver proves that "
         "for 12 entry points, every structured kind / annotation / dtype / admissible algorithm, with and without the optional algorithm argument, a structural rule "
         "(not the dense base case) is selected; (iii) the structural rules run on symbolic payloads with an allocation audit: no array with n^2 or more entries, and the same 26 audits plus the "
         "generic fall-backs (densifying a tall sub-operator, exact probing in blocks) are measured on the real float code with tracemalloc (n = 600 .. 4000)",
    note=_TB + "; (iii) is at concrete factor sizes (2, 3 symbolically; 20, 30 on floats); wall time and Python-level loops over a dimension (Kernel) are outside",
    technique="shape-symbolic execution of the Python source with z3 (QF_NIA) size bounds; symbolic execution of the dispatcher over z3 finite sorts; "
              "allocation audit during symbolic execution of the structural rules")
for _p in []:
    NA[_p] = "check under construction in this session (not yet registered); see DESIGN.md section 5 for the plan"

# additions of the fifth round of seeded changes (kept separate so that the base texts above stay as they were reviewed)
_ADD = {
    "C01": "; rule-less wide operators (8 * rows < cols: the generic densification multiplies the identity from the left) and sums of >= 3 terms "
           "whose first / middle term returns its operand (aliasing accumulations)",
    "C02": "; all-real sums of >= 3 terms with an Identity first / in the middle (an accumulation aliasing the left operand)",
    "C05": "; products of an operator with a slice / reordering of itself, off-diagonal blocks whose selectors coincide only after clipping, and "
           "declare-after-query sequences in both query orders (the operand answers isa() as before, the copy reports its declaration)",
    "C06": "; symbolic arrays report the array-API device of NumPy >= 2 and an exception of the float run inside a guarded call counts although the "
           "symbolic run completed (this is how inv(c * A) was found)",
    "C07": "; operators declared PSD sent through LU() (Dense, Sum, rule-less, Kronecker)",
    "C08": "; sums in which one operator object occurs twice; exact probing of an operator that returns its operand (or a view) followed by probing "
           "of an unrelated operator of the same size",
    "C09": "; symmetric matrices with a repeated eigenvalue through the general eigensolver, whose stand-in returns a legitimate non-orthogonal basis of the "
           "degenerate eigenspace",
    "C10": "; self-adjoint operator with a repeated eigenvalue through Eig() / Eigh() / Auto() (non-orthogonal LAPACK basis modelled)",
    "C11": "; the same matrices without the PSD declaration (alone and as Kronecker / BlockDiag factors), BlockDiag nested with multiplicities at both "
           "levels, and the operator's parameters after the factorisation (flatten unchanged, rebuilt from 4 * parameters factorised on its own)",
    "C12": "; a zero right-hand side (alone or as one column) together with a non-zero initial guess",
    "C13": "; the Givens-rotation variant (use_triangular=True) real and complex, and initial residuals of norm 1e-14 .. 1e-11",
    "C14": "; two factorisations of the same size / step count in one process, examined after both calls",
    "C15": "; two factorisations of the same size / step count in one process, examined after both calls",
    "C16": "; pinv of lazy products with square outer and non-square interior factors",
    "C17": "; complex operators (the estimate of a complex diagonal is that diagonal, not its conjugate; complex square root and NumPy's lexicographic "
           "complex ordering of the stopping rule are modelled)",
    "C18": "; every option object alive before a call (shared default arguments included) is unchanged by it; operators that were used before they are "
           "flattened; an operator rebuilt from another operator's parameters represents that operator",
    "C19": "; isqrt / log / pow(0.5) / trace(Auto) audits; peak memory of a product with a 96-term Sum / 96-factor Product compared with 4 terms",
    "C20": "; off-diagonal blocks of annotated operators whose selectors coincide only after clipping",
}
for _k, _v in _ADD.items():
    CHECKS[_k]["text"] += _v

#!/bin/bash
# Idempotent offline bootstrap of the overlay venv used by every check.
# /venv (the repository's environment) is left untouched: /verif/.venv is a venv created from
# /venv/bin/python whose site-packages see /venv's through a .pth file, plus z3-solver and cvc5
# from the offline wheelhouse.
set -e
cd "$(dirname "$0")"
V=/verif/.venv
if [ ! -x "$V/bin/python" ] || ! "$V/bin/python" -c "import z3, cvc5, numpy, scipy, optree, plum" >/dev/null 2>&1; then
  (
    flock 9
    if [ ! -x "$V/bin/python" ] || ! "$V/bin/python" -c "import z3, cvc5, numpy, scipy, optree, plum" >/dev/null 2>&1; then
      rm -rf "$V"
      /venv/bin/python -m venv "$V"
      SP=$("$V/bin/python" -c "import sysconfig; print(sysconfig.get_paths()['purelib'])")
      echo "import site; site.addsitedir('/venv/lib/python3.12/site-packages')" > "$SP/_overlay_venv.pth"
      PIP_NO_INDEX=1 "$V/bin/pip" install -q --no-index --find-links /opt/veriftools/wheels z3-solver cvc5 >/dev/null
    fi
  ) 9>/verif/.venv.lock
fi
"$V/bin/python" -c "import z3, cvc5, numpy, scipy, cola; assert cola.__file__.startswith('/repo/'), cola.__file__"

#!/usr/bin/env python3
"""Regenerates MANIFEST.json from the table below (kept in one place so that it is always valid)."""
import json, os
HERE = os.path.dirname(os.path.abspath(__file__))
props = {json.loads(l)["id"]: json.loads(l) for l in open(os.path.join(HERE, "properties.jsonl"))}

CHECKS = {}
NA = {}
exec(open(os.path.join(HERE, "manifest_table.py")).read())

m = {
    "version": 1,
    "setup_cmd": "./setup.sh",
    "hooks": {
        "guard": "COLA_VERIF",
        "enable": "none needed: no hooks or instrumentation were added to /repo; the harness installs a backend shim "
                  "(symx/shim.py) on the imported cola.backends.np_fns module object at run time",
        "baseline_off_cmd": "cd /repo && /venv/bin/python -m pytest -ra -q -p no:cacheprovider --timeout=900 --continue-on-collection-errors",
        "source_commits": [],
        "add_only": True,
    },
    "engines": [{
        "name": "symx",
        "path": "symx/",
        "serves_properties": sorted(CHECKS),
        "kind_free_text": "concolic symbolic execution of the real cola Python code on SymArray payloads (exact rational-function "
                          "terms + z3 term DAGs), path conditions / obligations decided by z3 (cvc5 cross-check), counterexamples "
                          "replayed on the real float code",
    }],
    "checks": [],
    "not_applicable": [{"property_id": k, "reason": v} for k, v in sorted(NA.items())],
    "notes": "Exit codes of ./check: 0 holds on everything explored; 1 replayed violation (VIOLATION line); 2 inconclusive; "
             "3 harness error. Known genuine defects are listed in known_findings.json and printed as KNOWN-FINDING lines.",
}
for pid in sorted(CHECKS):
    c = CHECKS[pid]
    m["checks"].append({
        "property_id": pid,
        "quick_cmd": f"./check {pid} --tier quick",
        "thorough_cmd": f"./check {pid} --tier thorough",
        "evidence_file": f"evidence/{pid}.json",
        "replay_cmd_template": f"./check {pid} --replay {{path}}",
        "engine": "symx",
        "level_claimed": {"category": "model_checking", "text": c["text"], "design_ref": c.get("design_ref", "DESIGN.md section 5")},
        "level_note": c["note"],
        "technique": c["technique"],
    })
assert set(CHECKS) | set(NA) == set(props), sorted(set(props) - set(CHECKS) - set(NA))
json.dump(m, open(os.path.join(HERE, "MANIFEST.json"), "w"), indent=1)
print("MANIFEST.json:", len(m["checks"]), "checks,", len(m["not_applicable"]), "not applicable")

"""Harness-side backend shim (no change to /repo): makes cola's NumPy backend namespace
`cola.backends.np_fns` (a) create SymArrays where it allocates inexact buffers while a symbolic run is
active, (b) provide the two functional primitives NumPy lacks (`linear_transpose`, pytree-aware `vmap`)
by their definitions, and (c) route LAPACK/scipy/FFT entry points to the exact stand-ins in
symx.lapack.  Every replacement falls through to the original function when no symbolic value is
involved, so the same process can run the real float code (translator validation)."""
import numpy as np

from . import lapack
from .array import HANDLERS, SymArray, W, lift, _raw
from .core import C, E, Inconclusive, PyNum, Sym, SymBool

MODE = {"symbolic": False}
_ORIG = {}
_installed = False


def symbolic(on):
    MODE["symbolic"] = bool(on)


def _is_sym(*xs):
    for x in xs:
        if isinstance(x, (SymArray, Sym, SymBool, PyNum)):
            return True
        if isinstance(x, (list, tuple)) and _is_sym(*x):
            return True
    return False


def functional_additions(np_fns):
    """linear_transpose and vmap for the NumPy backend, on whatever array type is passed.  These are the
    only two replacements that are also active in concrete replay (NumPy raises NotImplemented)."""
    def linear_transpose(fun, primals, duals):
        # definition of the transpose of the linear map fun: M(fun)^T @ duals, M(fun) = fun(I)
        n = primals.shape[0]
        M = fun(np_fns.eye(n, n, dtype=primals.dtype))
        return M.T @ duals

    def vmap(fun, in_axes=0, out_axes=0):
        # JAX's pytree contract: unstack leaves on axis 0, map, stack leaves of the results
        def mapped(*args):
            leaves, tree = np_fns.tree_flatten(args)
            n = None
            for l in leaves:
                if isinstance(l, np.ndarray) and l.ndim > 0:
                    n = l.shape[0]
                    break
            outs = []
            for i in range(n):
                li = [l[i] if isinstance(l, np.ndarray) and l.ndim > 0 else l for l in leaves]
                outs.append(fun(*np_fns.tree_unflatten(tree, li)))
            oleaves = [np_fns.tree_flatten(o) for o in outs]
            otree = oleaves[0][1]
            stacked = []
            for k in range(len(oleaves[0][0])):
                col = [ol[0][k] for ol in oleaves]
                if isinstance(col[0], np.ndarray):
                    stacked.append(np.stack(col))
                else:
                    stacked.append(col[0])
            return np_fns.tree_unflatten(otree, stacked)

        return mapped

    np_fns.linear_transpose = linear_transpose
    np_fns.vmap = vmap


def install():
    global _installed
    if _installed:
        return
    _installed = True
    from cola.backends import np_fns
    for k in ("zeros", "ones", "eye", "array", "canonical", "block_diag", "lu", "solvetri", "copy", "cast", "lstsq", "svd",
              "eig", "randn", "sha_hash", "normal"):
        _ORIG[k] = getattr(np_fns, k)
    functional_additions(np_fns)

    def _inexact(dtype):
        try:
            return np.dtype(dtype).kind in 'fc'
        except TypeError:
            return False

    def zeros(shape, dtype, device=None):
        r = _ORIG["zeros"](shape, dtype)
        return lift(r) if MODE["symbolic"] and _inexact(dtype) else r

    def ones(shape, dtype, device=None):
        r = _ORIG["ones"](shape, dtype, device)
        return lift(r) if MODE["symbolic"] and _inexact(dtype) else r

    def eye(n, m=None, dtype=None, device=None):
        r = _ORIG["eye"](n, m, dtype=dtype)
        return lift(r) if MODE["symbolic"] and _inexact(dtype if dtype is not None else float) else r

    def array(arr, dtype=None, device=None):
        if isinstance(arr, PyNum):
            if isinstance(arr, complex) and dtype is not None and np.dtype(dtype).kind != 'c':
                raise TypeError("float() argument must be a string or a real number, not 'complex'")
            return W(arr.sym, dtype or ('complex128' if isinstance(arr, complex) else 'float64'))
        if isinstance(arr, (Sym, SymBool)):
            if isinstance(arr, Sym) and not arr.im.is_zero() and dtype is not None and np.dtype(dtype).kind != 'c':
                # np.array(1+2j, dtype=float64) raises for a python complex
                raise TypeError("float() argument must be a string or a real number, not 'complex'")
            return W(arr, dtype or ('float64' if not isinstance(arr, Sym) or arr.im.is_zero() else 'complex128'))
        if isinstance(arr, SymArray):
            return arr.astype(dtype) if dtype is not None else arr.copy()
        if isinstance(arr, (list, tuple)) and _is_sym(*_flatten(arr)):
            raw = np.empty(_shape_of(arr), dtype=object)
            _fill(raw, arr, ())
            lds = [x._ld for x in _flatten(arr) if isinstance(x, SymArray)]
            return W(raw, dtype or (np.result_type(*lds) if lds else 'float64'))
        r = _ORIG["array"](arr, dtype=dtype)
        if MODE["symbolic"] and r.dtype.kind in 'fc':
            return lift(r)
        return r

    def canonical(loc, shape, dtype, device=None):
        r = _ORIG["canonical"](loc, shape, dtype, device)
        return lift(r) if MODE["symbolic"] and _inexact(dtype) else r

    def block_diag(*arrs):
        return lapack.block_diag(*arrs)

    def lu(a):
        if isinstance(a, SymArray):
            return lapack.lu_pivoted(a)
        return _ORIG["lu"](a)

    def solvetri(a, b, **kw):
        if _is_sym(a, b):
            return lapack.solve_triangular(a, b, **kw)
        return _ORIG["solvetri"](a, b, **kw)

    def lstsq(A, b):
        if _is_sym(A, b):
            return lapack.lstsq_solution(A, b)
        return _ORIG["lstsq"](A, b)

    def svd(A, full_matrices):
        if _is_sym(A):
            U, S, Vh = lapack.svd(A, full_matrices=full_matrices)
            return U, S, np.conjugate(Vh.T)
        return _ORIG["svd"](A, full_matrices)

    def eig(a):
        if _is_sym(a):
            return lapack.eig(a)
        return _ORIG["eig"](a)

    np_fns.zeros = zeros
    np_fns.ones = ones
    np_fns.eye = eye
    np_fns.array = array
    np_fns.canonical = canonical
    np_fns.block_diag = block_diag
    np_fns.lu = lu
    np_fns.solvetri = solvetri
    np_fns.lstsq = lstsq
    np_fns.svd = svd
    np_fns.eig = eig

    install_np_proxies()
    HANDLERS.update({
        np.linalg.solve: lapack.solve,
        np.linalg.inv: lapack.inv,
        np.linalg.cholesky: lapack.cholesky,
        np.linalg.eigh: lapack.eigh,
        np.linalg.eig: lapack.eig,
        np.linalg.slogdet: lapack.slogdet,
        np.linalg.lstsq: lapack.np_lstsq,
        np.linalg.svd: lapack.svd,
        np.linalg.qr: lapack.qr,
        np.fft.fft: lapack.fft,
        np.fft.ifft: lapack.ifft,
    })


class _NpProxy:
    """stand-in for the `np` global of cola modules that call NumPy directly on payloads (np.array / np.eye would leave the symbolic
    domain through NumPy's C constructors): everything is forwarded to numpy except these two constructors"""
    def __getattr__(s, name):
        return getattr(np, name)

    @staticmethod
    def array(x, *a, **k):
        if isinstance(x, SymArray):
            dt = k.get("dtype", a[0] if a else None)
            r = x.copy()
            return r.astype(dt) if dt is not None else r
        return np.array(x, *a, **k)

    @staticmethod
    def asarray(x, *a, **k):
        if isinstance(x, SymArray):
            dt = k.get("dtype", a[0] if a else None)
            return x.astype(dt) if dt is not None and np.dtype(dt) != x.dtype else x
        return np.asarray(x, *a, **k)

    asanyarray = asarray
    ascontiguousarray = asarray

    @staticmethod
    def copy(x, *a, **k):
        if isinstance(x, SymArray):
            return x.copy()
        return np.copy(x, *a, **k)

    @staticmethod
    def eye(*a, **k):
        r = np.eye(*a, **k)
        return lift(r) if MODE["symbolic"] else r


def install_np_proxies():
    import importlib
    import sys
    importlib.import_module("cola.linalg.eig.eigs")
    proxy = _NpProxy()
    # every cola module that holds numpy as a global `np` (the backend module included): a direct np.array(x, copy=True) / np.asarray(x) on a
    # payload must stay inside the symbolic domain like every other NumPy routine does through __array_function__
    for name, m in list(sys.modules.items()):
        if name.startswith("cola.") and getattr(m, "np", None) is np and "jax" not in name and "torch" not in name:
            m.np = proxy


def _flatten(x):
    if isinstance(x, (list, tuple)):
        for y in x:
            yield from _flatten(y)
    else:
        yield x


def _shape_of(x):
    if isinstance(x, (list, tuple)):
        return (len(x), ) + (_shape_of(x[0]) if len(x) else ())
    if isinstance(x, np.ndarray):
        return x.shape
    return ()


def _fill(raw, x, idx):
    if isinstance(x, (list, tuple)):
        for i, y in enumerate(x):
            _fill(raw, y, idx + (i, ))
    elif isinstance(x, np.ndarray):
        if x.ndim == 0:
            raw[idx] = C(_raw(x).item() if isinstance(x, SymArray) else x.item())
        else:
            for j in np.ndindex(*x.shape):
                raw[idx + j] = C((_raw(x) if isinstance(x, SymArray) else x)[j])
    else:
        raw[idx] = C(x)

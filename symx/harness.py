"""Case execution: symbolic (concolic path exploration with solver-checked obligations) and concrete
(the same case function on plain NumPy floats: translator validation and counterexample replay)."""
import hashlib
import json
import os
import random
import signal
import sys
import time
import traceback
from fractions import Fraction

import numpy as np
import z3

from . import lapack, shim, smt, terms
from .array import SymArray, W, lift, _raw, symvar_array
from .core import C, E, Inconclusive, PathAbort, PyComplexSym, PyFloatSym, Sym, SymBool

SEED = int(os.environ.get("VERIF_SEED", "0") or 0)


class CaseTimeout(Exception):
    pass


def _alarm(signum, frame):
    raise CaseTimeout()


def _dflt_shadow(name, positive):
    h = int(hashlib.sha256(f"{SEED}:{name}".encode()).hexdigest()[:8], 16)
    num = (h % 13) - 6
    den = [1, 2, 3, 4][(h >> 8) % 4]
    if num == 0:
        num = 5
    v = Fraction(num, den)
    if positive and v <= 0:
        v = -v
    return v


class BaseT:
    sym = False

    def __init__(s):
        s.obligations = []  # dict(label, status, detail)
        s.notes = []

    def _rec(s, label, status, detail="", **kw):
        s.obligations.append(dict(label=label, status=status, detail=detail, **kw))

    def check(s, label, ok, detail=""):
        """concrete (structural) obligation: shapes, dtypes, kinds, counts"""
        s._rec(label, "holds-concrete" if ok else "violated", detail if not ok else "", concrete=True)
        return ok

    def note(s, x):
        s.notes.append(x)


# ================================================================================================
class SymT(BaseT):
    sym = True

    def __init__(s, seed=None, opts=None):
        super().__init__()
        s.seed = seed or {}
        s.opts = opts or {}
        s.input_meta = {}

    # ---- inputs ---------------------------------------------------------------------------
    def _shadow(s, name, positive):
        if name in s.seed:
            v = s.seed[name]
            if positive and v <= 0:
                v = _dflt_shadow(name, True)
            return v
        return _dflt_shadow(name, positive)

    def var(s, name, positive=False, nonneg=False):
        """one real input variable as a bare Sym (python-scalar stand-in)"""
        s.input_meta[name] = dict(positive=positive)
        return E.new_input(name, s._shadow(name, positive), positive=positive, nonneg=nonneg)

    def arr(s, name, shape, dtype='float64', positive=False):
        ld = np.dtype(dtype)
        a = np.empty(shape, dtype=object)
        for idx in (np.ndindex(*shape) if shape != () else [()]):
            nm = name + "".join(f"_{i}" for i in idx)
            if ld.kind == 'c':
                re = s.var(nm + "_re", positive=positive)
                im = s.var(nm + "_im")
                a[idx] = Sym(re.re, im.re)
            else:
                a[idx] = s.var(nm, positive=positive)
        return SymArray(a, ld)

    def scalar(s, name, dtype='float64', positive=False, form='0d'):
        """symbolic scalar in one of the forms a user can pass: '0d' array, 'py' python number"""
        ld = np.dtype(dtype)
        if ld.kind == 'c':
            v = Sym(s.var(name + "_re", positive=positive).re, s.var(name + "_im").re)
        else:
            v = s.var(name, positive=positive)
        if form == 'py':
            return PyComplexSym(v) if ld.kind == 'c' else PyFloatSym(v)
        return W(v, ld)

    def const(s, x, dtype=None):
        return lift(np.asarray(x, dtype=dtype))

    def assume(s, cond):
        if isinstance(cond, SymArray):
            cond = cond.raw.item() if cond.size == 1 else None
        if isinstance(cond, SymBool):
            E.pre.append(cond.e)
            if not cond.v:
                raise PathAbort("seed violates an assumption")
        elif not cond:
            raise PathAbort("seed violates a concrete assumption")

    # ---- obligations --------------------------------------------------------------------
    def _ctx(s, domain=True):
        # domain events (divisor != 0, radicand >= 0, log argument > 0) met so far are assumptions of every
        # obligation: identities are claimed where the executed operations are defined
        if not domain:
            # used for obligations *about* the domain of sqrt / log: the generator definitions (g^2 = p, g >= 0) would imply
            # them, so only preconditions and the path condition are assumed
            return list(E.pre) + list(E.pc)
        return list(E.pre) + list(E.defs) + list(E.pc) + [e for k, e, ok in E.domain]

    def domain_events(s, kind=None):
        return [(k, e) for k, e, ok in E.domain if kind is None or k == kind]

    def eq(s, label, got, want, dtype=True, shape=True, atol_scale=None):
        """got == want entrywise (and same shape / logical dtype)"""
        t0 = time.time()
        g, w = _as_obj(got), _as_obj(want)
        if shape and g.shape != w.shape:
            return s._rec(label, "violated", f"shape {g.shape} != expected {w.shape}", concrete=True)
        if not shape:
            try:
                g, w = np.broadcast_arrays(g, w)
            except ValueError:
                return s._rec(label, "violated", f"shape {g.shape} vs {w.shape}", concrete=True)
        if dtype:
            gd, wd = _ldtype(got), _ldtype(want)
            if gd is not None and wd is not None:
                s._rec(label + ":dtype", "violated" if gd != wd else "holds-concrete",
                       f"dtype {gd} != expected {wd}" if gd != wd else "", concrete=True, kind="dtype")
        res = []
        zd = E.zdag
        E.zdag = False
        from .core import NaNSym
        if any(isinstance(x, NaNSym) for x in g.ravel()):
            return s._rec(label, "violated", "result contains nan", model={}, n=g.size)
        try:
            for a, b in zip(g.ravel(), w.ravel()):
                d = C(a) - C(b)
                if not d.re.is_zero():
                    res.append(d.re)
                if not d.im.is_zero():
                    res.append(d.im)
        finally:
            E.zdag = zd
        if zd and g.size:
            # z-DAG mode: the solver decides the equality of the two *un-normalised* term DAGs (the one built by
            # the executed cola code and the one built by the reference interpreter); the normal form is only
            # a second opinion that must agree
            lits = []
            for a, b in zip(g.ravel(), w.ravel()):
                (ar, ai), (br, bi) = C(a).z(), C(b).z()
                if not ar.eq(br):
                    lits.append(ar != br)
                if ai is not None or bi is not None:
                    ai = ai if ai is not None else z3.RealVal(0)
                    bi = bi if bi is not None else z3.RealVal(0)
                    if not ai.eq(bi):
                        lits.append(ai != bi)
            if not lits:
                verdict = "unsat"
            else:
                verdict, model = smt.check(s._ctx() + [z3.Or(lits) if len(lits) > 1 else lits[0]], "eq-zdag",
                                           timeout_ms=s.opts.get("zdag_timeout_ms", 10000), want_model=True)
            if verdict == "unsat":
                if res:
                    # the normaliser left a residual: it must be refutable too, else the two deciders disagree
                    v2, _ = smt.check(s._ctx() + [z3.Or([E.p2z(r.n) != 0 for r in res])], "eq", timeout_ms=10000)
                    if v2 == "sat":
                        return s._rec(label, "unknown", "z-DAG query unsat but normal-form residual satisfiable (decider disagreement)")
                return s._rec(label, "holds-solver", n=g.size, t=time.time() - t0, zdag=True)
            if verdict == "sat" and not res:
                return s._rec(label, "unknown", "z-DAG query sat but normal forms identical (decider disagreement)")
            if verdict == "unknown":
                s.notes.append(f"zdag-unknown:{label}")
        if not res:
            return s._rec(label, "holds-trivial", n=g.size)
        consts = [r for r in res if r.is_const()]
        if consts:
            return s._rec(label, "violated", f"constant residual {consts[0]}", model={}, n=g.size)
        lits = [E.p2z(r.n) != 0 for r in res]
        verdict, model = smt.check(s._ctx() + [z3.Or(lits) if len(lits) > 1 else lits[0]], "eq",
                                   timeout_ms=s.opts.get("eq_timeout_ms", 20000), want_model=True)
        if verdict == "unsat":
            return s._rec(label, "holds-solver", n=g.size, t=time.time() - t0)
        if verdict == "unknown":
            return s._rec(label, "unknown", f"{len(res)} non-trivial residuals", n=g.size, t=time.time() - t0)
        # nicer model for replay: bounded inputs, visible difference
        vis = [z3.Or(E.r2z(r) >= z3.RealVal("1/16"), E.r2z(r) <= z3.RealVal("-1/16")) for r in res[:6]]
        bnd = [z3.And(E.zv(i) >= -4, E.zv(i) <= 4) for i in E.inputs]
        v2, m2 = smt.check(s._ctx() + [z3.Or(vis)], "eq-nice", timeout_ms=5000, want_model=True, bounds=bnd + s._wc())
        if v2 == "sat":
            model = m2
        return s._rec(label, "violated", f"{len(res)} residuals, e.g. {str(res[0])[:200]}", model=s._assignment(model), n=g.size)

    def _wc(s):
        return list(s.opts.get("wellcond", []))

    def true(s, label, cond, assume_domain=True):
        """cond (SymBool / bool / array of them) holds for every input on this path"""
        _ctx0 = s._ctx
        if not assume_domain:
            s._ctx = lambda: _ctx0(False)
        try:
            return s._true(label, cond)
        finally:
            if not assume_domain:
                del s._ctx

    def _true(s, label, cond):
        conds = _flatten_bools(cond)
        es = []
        for c in conds:
            if isinstance(c, SymBool):
                e = z3.simplify(c.e)
                if z3.is_true(e):
                    continue
                if z3.is_false(e):
                    return s._rec(label, "violated", "constant false", model={})
                es.append(e)
            elif not c:
                return s._rec(label, "violated", "constant false", model={})
        if not es:
            return s._rec(label, "holds-trivial")
        t0 = time.time()
        verdict, model = smt.check(s._ctx() + [z3.Not(z3.And(es)) if len(es) > 1 else z3.Not(es[0])], "true",
                                   timeout_ms=s.opts.get("true_timeout_ms", 20000), want_model=True)
        if verdict == "unsat":
            return s._rec(label, "holds-solver", t=time.time() - t0)
        if verdict == "unknown":
            return s._rec(label, "unknown", str(es[0])[:200])
        bnd = [z3.And(E.zv(i) >= -4, E.zv(i) <= 4) for i in E.inputs]
        v2, m2 = smt.check(s._ctx() + [z3.Not(z3.And(es))], "true-nice", timeout_ms=5000, want_model=True, bounds=bnd + s._wc())
        if v2 == "sat":
            model = m2
        return s._rec(label, "violated", str(es[0])[:200], model=s._assignment(model))

    def sat(s, label, cond):
        """vacuity / reachability obligation: cond must be satisfiable on this path"""
        conds = [c.e if isinstance(c, SymBool) else z3.BoolVal(bool(c)) for c in _flatten_bools(cond)]
        verdict, _ = smt.check(s._ctx() + conds, "reach", timeout_ms=10000)
        s._rec(label, {"sat": "holds-solver", "unsat": "violated", "unknown": "unknown"}[verdict], kind="reach")

    def raises(s, label, excs, fn):
        try:
            fn()
        except excs as e:
            return s._rec(label, "holds-concrete", concrete=True), e
        except (Inconclusive, PathAbort, CaseTimeout):
            raise
        except Exception as e:
            return s._rec(label, "violated", f"raised {type(e).__name__}: {e} instead of {excs}", concrete=True), e
        return s._rec(label, "violated", "no exception raised", concrete=True), None

    def _assignment(s, model):
        out = {}
        for i in E.inputs:
            name = terms.VARS[i]
            v = smt.model_value(model, E.zv(i)) if model is not None else E.shadow[i]
            out[name] = str(v)
        return out


def _as_obj(x):
    if isinstance(x, SymArray):
        return x.raw
    if isinstance(x, (Sym, SymBool)):
        a = np.empty((), dtype=object)
        a[()] = x
        return a
    a = np.asarray(x)
    if a.dtype != object:
        a = a.astype(object)
    return a


def _ldtype(x):
    if isinstance(x, SymArray):
        return x.dtype
    if isinstance(x, np.ndarray) and x.dtype != object:
        return x.dtype
    if isinstance(x, np.generic):
        return x.dtype
    return None


def _flatten_bools(c):
    if isinstance(c, SymArray):
        return list(c.raw.ravel())
    if isinstance(c, np.ndarray):
        return list(c.ravel())
    if isinstance(c, (list, tuple)):
        out = []
        for x in c:
            out += _flatten_bools(x)
        return out
    return [c]


# ================================================================================================
class ConcT(BaseT):
    """the same case on plain float64/complex128 NumPy arrays"""
    sym = False

    def __init__(s, values, rtol=1e-6):
        super().__init__()
        s.values = values  # name -> Fraction/float
        s.rtol = rtol

    def _val(s, name, positive):
        if name in s.values:
            return float(Fraction(s.values[name]))
        return float(_dflt_shadow(name, positive))

    def var(s, name, positive=False, nonneg=False):
        return s._val(name, positive)

    def arr(s, name, shape, dtype='float64', positive=False):
        ld = np.dtype(dtype)
        a = np.empty(shape, dtype=ld)
        for idx in (np.ndindex(*shape) if shape != () else [()]):
            nm = name + "".join(f"_{i}" for i in idx)
            if ld.kind == 'c':
                a[idx] = complex(s._val(nm + "_re", positive), s._val(nm + "_im", False))
            else:
                a[idx] = s._val(nm, positive)
        return a

    def scalar(s, name, dtype='float64', positive=False, form='0d'):
        ld = np.dtype(dtype)
        if ld.kind == 'c':
            v = complex(s._val(name + "_re", positive), s._val(name + "_im", False))
        else:
            v = s._val(name, positive)
        if form == 'py':
            return v
        return np.array(v, dtype=ld)

    def const(s, x, dtype=None):
        return np.asarray(x, dtype=dtype)

    def assume(s, cond):
        if not bool(np.all(cond)):
            raise PathAbort("assignment violates an assumption")

    def eq(s, label, got, want, dtype=True, shape=True, atol_scale=None):
        g, w = np.asarray(got), np.asarray(want)
        if shape and g.shape != w.shape:
            return s._rec(label, "violated", f"shape {g.shape} != expected {w.shape}")
        if dtype and g.dtype != object and w.dtype != object:
            s._rec(label + ":dtype", "violated" if g.dtype != w.dtype else "holds-concrete",
                   f"dtype {g.dtype} != expected {w.dtype}" if g.dtype != w.dtype else "", kind="dtype")
        try:
            g2, w2 = np.broadcast_arrays(g, w)
        except ValueError:
            return s._rec(label, "violated", f"shape {g.shape} vs {w.shape}")
        g2 = g2.astype(complex)
        w2 = w2.astype(complex)
        if g2.size == 0:
            return s._rec(label, "holds-concrete")
        eps = 1e-3 if (g.dtype in (np.float32, np.complex64) or w.dtype in (np.float32, np.complex64)) else s.rtol
        scale = max(1.0, float(np.max(np.abs(w2))) if np.all(np.isfinite(w2)) else 1.0)
        if atol_scale is not None:
            # the case states the magnitude of its data (tiny-scale inputs): the float comparison is relative to that, not to 1
            scale = float(abs(atol_scale))
        bad = ~(np.abs(g2 - w2) <= eps * scale)
        if bad.any():
            i = int(np.argmax(bad.ravel()))
            return s._rec(label, "violated", f"entry {i}: got {g2.ravel()[i]} expected {w2.ravel()[i]}")
        return s._rec(label, "holds-concrete")

    def true(s, label, cond, assume_domain=True):
        ok = bool(np.all(cond))
        s._rec(label, "holds-concrete" if ok else "violated")

    def sat(s, label, cond):
        s._rec(label, "holds-concrete", kind="reach")

    def raises(s, label, excs, fn):
        try:
            fn()
        except excs as e:
            return s._rec(label, "holds-concrete"), e
        except Exception as e:
            return s._rec(label, "violated", f"raised {type(e).__name__}: {e} instead of {excs}"), e
        return s._rec(label, "violated", "no exception raised"), None


# ================================================================================================
def run_concrete(func, kwargs, values):
    shim.symbolic(False)
    lapack.clear_known()
    T = ConcT(values)
    err = None
    try:
        with np.errstate(all='ignore'):
            func(T, **kwargs)
    except PathAbort as e:
        err = f"abort: {e}"
    except Exception as e:
        err = f"{type(e).__name__}: {e}"
        T._rec("!exception", "violated", err + "\n" + traceback.format_exc()[-1500:])
    return T, err


def run_symbolic_path(func, kwargs, seed, opts, profile=None):
    E.full_reset()
    E.zdag = bool(opts.get("zdag", False))
    E.abs_gen = bool(opts.get("abs_gen", False))
    lapack.clear_known()
    shim.symbolic(True)
    T = SymT(seed, opts)
    status = "ok"
    detail = ""
    try:
        if profile is not None:
            sys.setprofile(profile)
        try:
            func(T, **kwargs)
        finally:
            sys.setprofile(None)
    except PathAbort as e:
        status, detail = "abort", str(e)
    except Inconclusive as e:
        status, detail = "inconclusive", str(e)
    except CaseTimeout:
        raise
    except Exception as e:
        status, detail = "exception", f"{type(e).__name__}: {e}\n" + traceback.format_exc()[-2500:]
    finally:
        shim.symbolic(False)
    return T, status, detail


def explore(func, kwargs, opts):
    """generational concolic search over the paths of one case"""
    max_paths = opts.get("max_paths", 24)
    flip_timeout = opts.get("flip_timeout_ms", 5000)
    deadline = time.time() + opts.get("case_budget_s", 120)
    seen_paths = set()
    tried = set()
    work = [(None, None)]
    paths = []
    complete = True
    covered_fns = set()
    stats = dict(paths=0, dup=0, infeasible=0, diverged=0, flips=0, flip_unsat=0, flip_unknown=0, forks=0, aborted=0)

    def profile(frame, event, arg):
        if event == "call":
            co = frame.f_code
            fn = co.co_filename
            if "/repo/cola/" in fn:
                covered_fns.add(fn.split("/repo/")[1] + ":" + co.co_name)

    first = True
    while work:
        if len(paths) >= max_paths or time.time() > deadline:
            complete = False
            break
        seed, expect = work.pop(0)
        T, status, detail = run_symbolic_path(func, kwargs, seed, opts, profile if first else None)
        first = False
        if status == "abort":
            stats["aborted"] += 1
            # the seed violated an assumption: ask the solver for a seed that satisfies the assumptions seen so far (together
            # with the path prefix that led here)
            if stats["aborted"] <= 12 + 2 * max_paths:
                bnd = []
                for vi in E.inputs:
                    bnd.append(z3.And(E.zv(vi) >= -8, E.zv(vi) <= 8))
                    if vi in E.positive:
                        bnd.append(E.zv(vi) >= z3.RealVal("1/16"))
                base = list(E.pre) + list(E.defs) + list(E.pc)
                r, m = smt.check(base, "assume-seed", timeout_ms=flip_timeout, want_model=True, bounds=bnd)
                if r != "sat":
                    r, m = smt.check(base, "assume-seed", timeout_ms=flip_timeout, want_model=True)
                if r == "sat":
                    newseed = dict(seed or {})
                    for vi in E.inputs:
                        newseed[terms.VARS[vi]] = smt.model_value(m, E.zv(vi))
                    work.insert(0, (newseed, None))
                elif r == "unknown":
                    complete = False
            continue
        sig = tuple(l.sexpr() for l in E.pc)
        if expect is not None and sig[:len(expect)] != expect:
            stats["diverged"] += 1
        if sig in seen_paths:
            stats["dup"] += 1
            continue
        seen_paths.add(sig)
        # feasibility (shadows of generator variables are floats and may mis-steer)
        inexact = any(not isinstance(E.shadow.get(v), Fraction) for v in range(len(terms.VARS)) if v in E.shadow)
        if inexact and E.pc:
            r, _ = smt.check(list(E.pre) + list(E.defs) + list(E.pc), "feasible", timeout_ms=flip_timeout)
            if r == "unsat":
                stats["infeasible"] += 1
                continue
        stats["paths"] += 1
        stats["forks"] += len(E.pc)
        values = {terms.VARS[i]: str(E.shadow[i]) for i in E.inputs}
        # seed for the float cross-run of this path: a *well-conditioned* point of the path (inputs in [-8, 8], positive inputs
        # >= 1/16); paths that only exist at extreme scales are not diffed against floats (rounding would dominate)
        tv_values = values
        if E.pc and opts.get("validate", True):
            bnd = []
            for vi in E.inputs:
                x = E.zv(vi)
                bnd.append(z3.And(x >= -8, x <= 8))
                if vi in E.positive:
                    bnd.append(x >= z3.RealVal("1/16"))
                else:
                    bnd.append(z3.Or(x >= z3.RealVal("1/16"), x <= z3.RealVal("-1/16")))
            cur = [z3.And(E.zv(vi) >= z3.RealVal(str(E.shadow[vi])) - z3.RealVal("1/1000"), E.zv(vi) <= z3.RealVal(str(E.shadow[vi])) + z3.RealVal("1/1000"))
                   for vi in E.inputs]
            moderate = all(Fraction(1, 16) <= abs(E.shadow[vi]) <= 8 for vi in E.inputs) and all(ok for k, e, ok in E.domain)
            if not moderate:
                r, mdl = smt.check(list(E.pre) + list(E.defs) + list(E.pc) + [e for k, e, ok in E.domain], "tv-seed", timeout_ms=3000,
                                   want_model=True, bounds=bnd)
                if r == "sat":
                    tv_values = {terms.VARS[vi]: str(smt.model_value(mdl, E.zv(vi))) for vi in E.inputs}
                else:
                    tv_values = None
        paths.append(dict(tv_values=tv_values, sig=[s_[:160] for s_ in sig], status=status, detail=detail, obligations=T.obligations,
                          domain=[(k, str(e)[:160]) for k, e, ok in E.domain][:8], n_domain=len(E.domain), values=values,
                          notes=T.notes, n_inputs=len(E.inputs), n_defs=len(E.defs)))
        # children
        pc, nd, pre, defs = list(E.pc), list(E.pc_ndefs), list(E.pre), list(E.defs)
        for i in range(len(pc)):
            key = sig[:i] + ("!" + sig[i], )
            if key in tried:
                continue
            tried.add(key)
            if time.time() > deadline:
                complete = False
                break
            stats["flips"] += 1
            r, m = smt.check(pre + defs[:nd[i]] + pc[:i] + [z3.Not(pc[i])], "flip", timeout_ms=flip_timeout, want_model=True)
            if r == "unsat":
                stats["flip_unsat"] += 1
            elif r == "unknown":
                stats["flip_unknown"] += 1
                complete = False
            else:
                newseed = {}
                for vi in E.inputs:
                    newseed[terms.VARS[vi]] = smt.model_value(m, E.zv(vi))
                neg = z3.simplify(z3.Not(pc[i])).sexpr()
                work.append((newseed, sig[:i] + (neg, )))
    if work:
        complete = False
    return paths, complete, stats, sorted(covered_fns)


def run_case(func, kwargs, opts):
    """returns a JSON-able result for one case"""
    t0 = time.time()
    smt.reset_stats()
    budget = int(opts.get("case_budget_s", 120))
    old = signal.signal(signal.SIGALRM, _alarm)
    signal.alarm(budget + 30)
    res = dict(paths=[], complete=False, stats={}, fns=[], error=None)
    try:
        paths, complete, stats, fns = explore(func, kwargs, opts)
        res.update(paths=paths, complete=complete, stats=stats, fns=fns)
        # translator validation: same case on real floats at each path's shadow point
        tv = dict(runs=0, mismatches=[])
        if opts.get("validate", True):
            for p in paths[:opts.get("validate_paths", 4)]:
                if p["status"] not in ("ok", "inconclusive") or p.get("tv_values") is None:
                    continue
                Tc, err = run_concrete(func, kwargs, p["tv_values"])
                tv["runs"] += 1
                sym = {o["label"]: o["status"] for o in p["obligations"]}
                for o in Tc.obligations:
                    ss = sym.get(o["label"])
                    if ss is None:
                        # the symbolic run of this path stopped before reaching the obligation (unmodelled operation): a violation
                        # observed by the float run at the path's seed is still a violation of the real code
                        if p["status"] == "inconclusive" and o["status"] == "violated" and o["label"] != "!exception":
                            tv["mismatches"].append(dict(label=o["label"], sym="inconclusive", conc=o["detail"][:300], values=p["tv_values"]))
                        elif (p["status"] == "ok" and o["status"] == "violated" and o["label"].endswith(":!exception")
                              and not any(w in o["detail"] for w in ("LinAlgError", "ZeroDivisionError", "FloatingPointError", "ingular"))):
                            # the float run raised inside a guarded library call that the symbolic run of the same path completed: the model
                            # and the real code diverge (e.g. an attribute real arrays have and the symbolic arrays lacked).  Numerical domain
                            # errors at a degenerate seed (singular matrix, division by zero) are not counted: the exact run treats them as
                            # domain assumptions
                            tv["mismatches"].append(dict(label=o["label"], sym="absent", conc=o["detail"][:300], values=p["tv_values"]))
                        continue
                    if ss.startswith("holds") and o["status"] == "violated":
                        tv["mismatches"].append(dict(label=o["label"], sym=ss, conc=o["detail"][:300], values=p["tv_values"]))
        res["tv"] = tv
    except CaseTimeout:
        res["error"] = "timeout"
    except Exception as e:
        res["error"] = f"{type(e).__name__}: {e}\n" + traceback.format_exc()[-2000:]
    finally:
        signal.alarm(0)
        signal.signal(signal.SIGALRM, old)
        shim.symbolic(False)
    res["smt"] = json.loads(json.dumps(smt.STATS))
    res["wall"] = time.time() - t0
    return res

"""Shape-symbolic arrays: dimensions are polynomials over positive integer variables (symx.terms.Poly), no data.  The real
`_matmat` code of the structured operators runs on them (reshape(-1), moveaxis, slicing with symbolic bounds, broadcasting, @,
concatenate); every allocation is logged with its symbolic size so that z3 can bound the peak memory for *all* factor sizes."""
import numpy as np

from .terms import Poly

ALLOC = []  # (why, Dim size)
TRACK = [True]


class ShapeError(AssertionError):
    pass


class Dim:
    """positive integer dimension as a polynomial in the size variables (normal form: equal sizes are syntactically equal)"""
    __slots__ = ("p", )

    def __init__(s, p):
        s.p = p if isinstance(p, Poly) else Poly.const(int(p))

    @staticmethod
    def w(o):
        return o if isinstance(o, Dim) else Dim(Poly.const(int(o)))

    @staticmethod
    def var(name):
        return Dim(Poly.var(name))

    def __mul__(a, b):
        if isinstance(b, (Dim, int, np.integer)):
            return Dim(a.p * Dim.w(b).p)
        return NotImplemented

    __rmul__ = __mul__

    def __add__(a, b):
        return Dim(a.p + Dim.w(b).p)

    __radd__ = __add__

    def __sub__(a, b):
        return Dim(a.p - Dim.w(b).p)

    def __rsub__(a, b):
        return Dim(Dim.w(b).p - a.p)

    def __floordiv__(a, b):
        q = a.p.divexact(Dim.w(b).p)
        if q is None:
            raise ShapeError(f"size {a.p} is not divisible by {b}")
        return Dim(q)

    def __eq__(a, b):
        if not isinstance(b, (Dim, int, np.integer)):
            return NotImplemented
        return a.p == Dim.w(b).p

    def __ne__(a, b):
        r = a.__eq__(b)
        return r if r is NotImplemented else not r

    def __hash__(s):
        return hash(s.p)

    def is_const(s):
        return s.p.is_const()

    def __index__(s):
        if not s.p.is_const():
            raise ShapeError(f"symbolic size {s.p} used where a concrete integer is needed (Python loop over a dimension?)")
        return int(s.p.cval())

    __int__ = __index__

    def __repr__(s):
        return repr(s.p)


def prod(ds):
    r = Dim(1)
    for d in ds:
        r = r * Dim.w(d)
    return r


def _is_m1(d):
    return isinstance(d, (int, np.integer)) and int(d) == -1


class ShapeArray:
    __array_priority__ = 2000
    __array_ufunc__ = None

    def __init__(s, shape, dtype=np.float64, why="input"):
        s.shape = tuple(Dim.w(d) for d in shape)
        s.dtype = np.dtype(dtype)
        if why != "view" and TRACK[0]:
            ALLOC.append((why, prod(s.shape)))

    ndim = property(lambda s: len(s.shape))
    device = None

    def __len__(s):
        return s.shape[0]

    def reshape(s, *shape):
        if len(shape) == 1 and isinstance(shape[0], (tuple, list)):
            shape = tuple(shape[0])
        tot = prod(s.shape)
        known = prod([d for d in shape if not _is_m1(d)])
        shape = tuple((tot // known) if _is_m1(d) else Dim.w(d) for d in shape)
        if prod(shape) != tot:
            raise ShapeError(f"cannot reshape {s.shape} into {shape}")
        return ShapeArray(shape, s.dtype, "view")

    @property
    def T(s):
        return ShapeArray(s.shape[::-1], s.dtype, "view")

    @property
    def real(s):
        return s

    def conj(s):
        return s

    def copy(s):
        return ShapeArray(s.shape, s.dtype, "copy")

    def astype(s, dt, **kw):
        if np.dtype(dt) == s.dtype:
            return ShapeArray(s.shape, dt, "view")
        return ShapeArray(s.shape, dt, "astype")

    def __matmul__(a, b):
        if not isinstance(b, ShapeArray):
            return NotImplemented
        if a.shape[-1] != b.shape[0 if b.ndim == 1 else -2]:
            raise ShapeError(f"matmul {a.shape} @ {b.shape}")
        out = a.shape[:-1] + (b.shape[1:] if b.ndim <= 2 else b.shape[-1:])
        return ShapeArray(out, np.result_type(a.dtype, b.dtype), "matmul")

    def _bin(a, b, why):
        if not isinstance(b, ShapeArray):
            return ShapeArray(a.shape, np.result_type(a.dtype, type(b)(0) if isinstance(b, (int, float, complex)) else a.dtype), why)
        sa, sb = a.shape, b.shape
        n = max(len(sa), len(sb))
        sa = (Dim(1), ) * (n - len(sa)) + sa
        sb = (Dim(1), ) * (n - len(sb)) + sb
        out = []
        for x, y in zip(sa, sb):
            if x == y:
                out.append(x)
            elif x == 1:
                out.append(y)
            elif y == 1:
                out.append(x)
            else:
                raise ShapeError(f"cannot broadcast {sa} with {sb}")
        return ShapeArray(tuple(out), np.result_type(a.dtype, b.dtype), why)

    def __mul__(a, b):
        return a._bin(b, "mul")

    __rmul__ = __mul__

    def __add__(a, b):
        return a._bin(b, "add")

    __radd__ = __add__

    def __sub__(a, b):
        return a._bin(b, "sub")

    __rsub__ = __sub__

    def __truediv__(a, b):
        return a._bin(b, "div")

    def __rtruediv__(a, b):
        return a._bin(b, "div")

    def __neg__(a):
        return ShapeArray(a.shape, a.dtype, "neg")

    def __iadd__(a, b):
        a._bin(b, "view")
        return a

    def __getitem__(s, idx):
        if not isinstance(idx, tuple):
            idx = (idx, )
        out = []
        i = 0
        for ix in idx:
            if ix is None:
                out.append(Dim(1))
                continue
            if ix is Ellipsis:
                rest = len([j for j in idx if j is not None and j is not Ellipsis])
                while len(s.shape) - i > rest - (len([j for j in idx[:idx.index(ix)] if j is not None])):
                    out.append(s.shape[i])
                    i += 1
                continue
            if isinstance(ix, slice):
                if ix.step not in (None, 1):
                    raise ShapeError("strided slice of a shape-symbolic array")
                def _b(v, dflt):
                    if v is None:
                        return dflt
                    if isinstance(v, (int, np.integer)) and v < 0:
                        return s.shape[i] + int(v)
                    return Dim.w(v)

                lo = _b(ix.start, Dim(0))
                hi = _b(ix.stop, s.shape[i])
                out.append(hi - lo)
                i += 1
                continue
            if isinstance(ix, ShapeArray):  # integer index array (permutation)
                out.extend(ix.shape)
                i += 1
                continue
            i += 1  # integer index: drops the axis
        out += list(s.shape[i:])
        return ShapeArray(tuple(out), s.dtype, "view")

    def __setitem__(s, idx, val):
        pass

    def sum(s, axis=None, keepdims=False):
        if axis is None:
            return ShapeArray((), s.dtype, "sum")
        axis = axis % len(s.shape)
        sh = list(s.shape)
        if keepdims:
            sh[axis] = Dim(1)
        else:
            sh.pop(axis)
        return ShapeArray(tuple(sh), s.dtype, "sum")

    def __array_function__(s, func, types, args, kwargs):
        if func is np.moveaxis:
            a, src, dst = args
            sh = list(a.shape)
            d = sh.pop(src)
            sh.insert(dst if dst >= 0 else len(sh) + 1 + dst, d)
            return ShapeArray(tuple(sh), a.dtype, "view")
        if func is np.concatenate:
            arrs = args[0]
            ax = kwargs.get("axis", args[1] if len(args) > 1 else 0)
            sh = list(arrs[0].shape)
            tot = arrs[0].shape[ax]
            for a in arrs[1:]:
                tot = tot + a.shape[ax]
            sh[ax] = tot
            return ShapeArray(tuple(sh), np.result_type(*[a.dtype for a in arrs]), "concat")
        if func is np.conj or func is np.conjugate:
            return args[0]
        if func is np.sum:
            return args[0].sum(axis=kwargs.get("axis"), keepdims=kwargs.get("keepdims", False))
        if func in (np.zeros_like, np.ones_like):
            return ShapeArray(args[0].shape, args[0].dtype, "zeros_like")
        raise ShapeError(f"{func.__name__} is not modelled on shape-symbolic arrays")

"""Model of NumPy's process-wide random state as an uninterpreted state machine.

The global state is a z3 term of an uninterpreted sort: it starts as a free constant s0 (= an arbitrary history of user draws),
`seed(k)` sets it to Seed(k), every draw replaces it by Adv(state, size), `set_state(t)` restores a saved term.  A routine leaves the
global state untouched for every interpretation of Seed / Adv iff the final term equals s0 (decided by z3 over uninterpreted functions);
it reads the global state iff it draws while the current term is derived from s0.  Values: either the real numbers NumPy would produce
from a mirrored private RandomState (mode 'concrete': routines run on floats) or fresh symbolic variables memoised on the state term
(mode 'symbolic': the same state gives the same symbols)."""
import numpy as np
import z3

State = z3.DeclareSort("RngState")
Seed = z3.Function("Seed", z3.IntSort(), State)
Adv = z3.Function("Adv", State, z3.IntSort(), State)


class _Token(tuple):
    """what get_state() returns: NumPy's 5-tuple, carrying the symbolic state term (slicing / copying it yields a plain tuple without the
    term: a state reconstructed from parts is of unknown provenance)"""
    def __new__(cls, term, real):
        o = tuple.__new__(cls, real)
        o.term, o.real = term, real
        return o


class RngModel:
    def __init__(self, mode="concrete", T=None):
        self.mode = mode
        self.T = T
        self.s0 = z3.Const("s0", State)
        self.term = self.s0
        self.real = np.random.RandomState(12345)
        self.global_draws = []  # draws performed while the state is derived from s0
        self.ndraws = 0
        self.draw_terms = []  # (state term, shape) at every draw
        self.memo = {}

    # ---- numpy.random API used by cola ---------------------------------------------------------
    def get_state(self):
        return _Token(self.term, self.real.get_state())

    def set_state(self, tok):
        if isinstance(tok, _Token):
            self.term = tok.term
            self.real.set_state(tok.real)
        else:
            # a state assembled from parts (e.g. only the first three fields): not provably the saved state
            self.nforeign = getattr(self, "nforeign", 0) + 1
            self.term = z3.Const(f"foreign{self.nforeign}", State)
            self.real.set_state(tok)

    def seed(self, k):
        self.term = Seed(z3.IntVal(int(k)))
        self.real.seed(int(k))

    def _derived_from_s0(self):
        return "s0" in self.term.sexpr()

    def _draw(self, shape, what):
        shape = tuple(int(s) for s in shape)
        size = int(np.prod(shape)) if shape else 1
        if self._derived_from_s0():
            self.global_draws.append(f"{what}{shape}")
        self.ndraws += 1
        key = (self.term.sexpr(), shape, what)
        self.draw_terms.append((key[0], shape))
        vals = self.real.randn(*shape) if shape else self.real.randn()
        if self.mode == "symbolic" and self.T is not None and self.T.sym:
            if key not in self.memo:
                tag = f"z{len(self.memo)}"
                self.memo[key] = self.T.arr(tag, shape, 'float64')
            out = self.memo[key]
        else:
            out = vals
        self.term = Adv(self.term, z3.IntVal(size))
        return out

    def randn(self, *shape):
        return self._draw(shape, "randn")

    def normal(self, loc=0.0, scale=1.0, size=None):
        shape = () if size is None else (tuple(size) if not isinstance(size, int) else (size, ))
        return loc + scale * self._draw(shape, "normal")

    def standard_normal(self, size=None):
        return self.normal(size=size)

    # ---- private generators (np.random.RandomState(seed) / default_rng(seed)): their own state chain, the global one is not involved ----
    def RandomState(self, seed=None):
        return _PrivateStream(self, seed, legacy=True)

    def default_rng(self, seed=None):
        return _PrivateStream(self, seed, legacy=False)

    # ---- obligations ------------------------------------------------------------------------------
    def state_restored(self):
        """z3: is there an interpretation of Seed / Adv and a start state with final != start?"""
        s = z3.Solver()
        s.add(self.term != self.s0)
        return str(s.check()) == "unsat"


class _PrivateStream:
    """a generator object of its own: seeded -> state term Seed(k) (PrivSeed(k) for the new Generator API), advanced by its own draws;
    unseeded -> entropy from the OS, i.e. a state of unknown provenance (results would not be reproducible: recorded as a global draw)"""
    def __init__(s, model, seed, legacy):
        s.model = model
        if seed is None:
            model.nforeign = getattr(model, "nforeign", 0) + 1
            s.term = z3.Const(f"entropy{model.nforeign}", State)
            s.unseeded = True
            s.real = np.random.RandomState() if legacy else np.random.default_rng()
        else:
            s.term = Seed(z3.IntVal(int(seed))) if legacy else z3.Function("PrivSeed", z3.IntSort(), State)(z3.IntVal(int(seed)))
            s.unseeded = False
            s.real = np.random.RandomState(int(seed)) if legacy else np.random.default_rng(int(seed))

    def _draw(s, shape, what):
        m = s.model
        shape = tuple(int(x) for x in shape)
        size = int(np.prod(shape)) if shape else 1
        if s.unseeded:
            m.global_draws.append(f"unseeded private generator: {what}{shape}")
        m.ndraws += 1
        key = (s.term.sexpr(), shape, what)
        m.draw_terms.append((key[0], shape))
        vals = s.real.standard_normal(shape) if shape else s.real.standard_normal()
        if m.mode == "symbolic" and m.T is not None and m.T.sym:
            if key not in m.memo:
                m.memo[key] = m.T.arr(f"z{len(m.memo)}", shape, 'float64')
            out = m.memo[key]
        else:
            out = vals
        s.term = Adv(s.term, z3.IntVal(size))
        return out

    def randn(s, *shape):
        return s._draw(shape, "randn")

    def standard_normal(s, size=None, **kw):
        shape = () if size is None else (tuple(size) if not isinstance(size, int) else (size, ))
        return s._draw(shape, "normal")

    def normal(s, loc=0.0, scale=1.0, size=None):
        return loc + scale * s.standard_normal(size)


class _NpWithRandom:
    """the module's `np` with `random` replaced by the model; everything else goes to what the module had before (the symbolic-aware NumPy
    proxy of symx/shim.py, so that np.array / np.asarray on payloads stay in the symbolic domain here as well)"""
    def __init__(self, model, base=None):
        self.random = model
        self._base = base if base is not None else np

    def __getattr__(self, name):
        return getattr(self._base, name)


def install(model):
    """make cola's NumPy backend (and the modules that call np.random directly) see the model instead of numpy.random"""
    import importlib
    from cola.backends import np_fns
    saved = {}
    for modname in ("cola.backends.np_fns", "cola.linalg.eig.lobpcg"):
        m = importlib.import_module(modname)
        saved[modname] = (m, m.__dict__.get("np"))
        m.np = _NpWithRandom(model, m.__dict__.get("np"))
    saved["normal"] = np_fns.normal
    np_fns.normal = model.normal
    return saved


def uninstall(saved):
    from cola.backends import np_fns
    np_fns.normal = saved.pop("normal")
    for modname, (m, old) in saved.items():
        m.np = old

"""Solver access: every query goes through `check`, which logs kind / verdict / time, treats anything
but sat/unsat as inconclusive, and can re-decide the query with cvc5 (cross-check)."""
import os
import time
from fractions import Fraction

import z3

STATS = {"queries": 0, "sat": 0, "unsat": 0, "unknown": 0, "time": 0.0, "by_kind": {}, "xcheck": 0, "xcheck_disagree": 0,
         "xcheck_unknown": 0}
XCHECK_EVERY = int(os.environ.get("SYMX_XCHECK_EVERY", "0"))  # 0 = off
XCHECK_MAX_PER_CASE = int(os.environ.get("SYMX_XCHECK_MAX_PER_CASE", "6"))  # one process per case
_SAMPLES = []


def reset_stats():
    for k in list(STATS):
        STATS[k] = {} if k == "by_kind" else (0.0 if k == "time" else 0)
    _SAMPLES.clear()


def check(assertions, kind="misc", timeout_ms=10000, want_model=False, bounds=None):
    """returns (verdict, model or None); verdict in {'sat','unsat','unknown'}"""
    s = z3.Solver()
    s.set("timeout", int(timeout_ms))
    for a in assertions:
        s.add(a)
    if bounds:
        for b in bounds:
            s.add(b)
    t0 = time.time()
    try:
        r = str(s.check())
    except z3.Z3Exception:
        r = "unknown"
    dt = time.time() - t0
    STATS["queries"] += 1
    STATS["time"] += dt
    STATS[r] = STATS.get(r, 0) + 1
    bk = STATS["by_kind"].setdefault(kind, {"n": 0, "sat": 0, "unsat": 0, "unknown": 0, "time": 0.0})
    bk["n"] += 1
    bk[r] += 1
    bk["time"] += dt
    model = None
    if r == "sat" and want_model:
        model = s.model()
    if XCHECK_EVERY and r in ("sat", "unsat") and STATS["queries"] % XCHECK_EVERY == 0 and STATS["xcheck"] < XCHECK_MAX_PER_CASE:
        # second opinion with a short leash: cvc5 gets 3 s (its `unknown` is counted, not held against the query), at most a few per case
        xr = cvc5_check(s.to_smt2(), timeout_ms=3000)
        STATS["xcheck"] += 1
        if xr == "unknown":
            STATS["xcheck_unknown"] += 1
        elif xr != r:
            STATS["xcheck_disagree"] += 1
            _SAMPLES.append({"z3": r, "cvc5": xr, "smt2": s.to_smt2()[:4000]})
    return r, model


def cvc5_check(smt2, timeout_ms=5000):
    """decide an SMT-LIB2 script with the cvc5 wheel; 'unknown' on any problem"""
    try:
        import cvc5
        slv = cvc5.Solver()
        slv.setOption("tlimit-per", str(int(timeout_ms)))
        slv.setOption("produce-models", "false")
        slv.setLogic("ALL")
        parser = cvc5.InputParser(slv)
        text = "\n".join(l for l in smt2.splitlines() if not l.startswith("(set-info") and not l.startswith("(set-logic"))
        parser.setStringInput(cvc5.InputLanguage.SMT_LIB_2_6, text, "q")
        sm = parser.getSymbolManager()
        res = "unknown"
        while True:
            cmd = parser.nextCommand()
            if cmd.isNull():
                break
            out = cmd.invoke(slv, sm)
            o = str(out).strip()
            if o in ("sat", "unsat", "unknown"):
                res = o
        return res
    except Exception:
        return "unknown"


def model_value(model, var):
    """z3 model value of a Real variable as a Fraction (algebraic numbers are approximated)"""
    v = model.eval(var, model_completion=True)
    if z3.is_rational_value(v):
        return Fraction(v.numerator_as_long(), v.denominator_as_long())
    if z3.is_algebraic_value(v):
        a = v.approx(20)
        return Fraction(a.numerator_as_long(), a.denominator_as_long())
    try:
        return Fraction(str(v))
    except Exception:
        return Fraction(0)

"""Symbolic scalars (Sym = exact complex rational function + shadow valuation), symbolic booleans
(SymBool = z3 formula + shadow truth value) and the engine state (path condition, generator
definitions, preconditions, domain events)."""
import math
from fractions import Fraction

import numpy as np
import z3

from . import terms
from .terms import R0, R1, Poly, Rat


class Inconclusive(Exception):
    pass


class PathAbort(Exception):
    """raised to abandon the current path (e.g. infeasible mis-steered path)"""


class Engine:
    def __init__(s):
        s.full_reset()

    def full_reset(s):
        terms.reset()
        s.z3vars = {}
        s.shadow = {}  # var idx -> Fraction | float
        s.positive = set()  # var idx known > 0 (from preconditions / generator definitions)
        s.nonneg = set()
        s.pre = []  # z3 preconditions over input variables
        s.inputs = []  # input var idx, in creation order
        s.ufs = {}
        s.zdag = False
        s.abs_gen = False  # |x| of a sign-unknown real x: fork on the sign (default) or introduce a generator g >= 0, g^2 = x^2
        s.path_reset()

    def path_reset(s):
        """forget everything that belongs to one execution path (but keep input variables and their
        preconditions); generator variables are re-created deterministically because their names
        are derived from a per-path counter"""
        s.pc = []  # z3 literals as taken, in order
        s.pc_ndefs = []  # number of generator definitions that existed when the literal was recorded
        s.decided = {}
        s.defs = []
        s.gen_n = 0
        s.sqrt_memo = {}
        s.uf_memo = {}
        s.gen_args = {}  # generator var idx -> (function name, argument Sym)
        s.domain = []  # (kind, z3 condition that must hold for the operation to be defined)
        s.forks = 0
        s.trace = None
        # drop generator variables' rules
        for v in list(terms.RULES):
            del terms.RULES[v]
        for v in list(s.positive):
            if terms.VARS[v].startswith("g!"):
                s.positive.discard(v)
        for v in list(s.nonneg):
            if terms.VARS[v].startswith("g!"):
                s.nonneg.discard(v)

    # ---- variables -------------------------------------------------------------------------
    def zv(s, i):
        v = s.z3vars.get(i)
        if v is None:
            v = s.z3vars[i] = z3.Real(terms.VARS[i])
        return v

    def new_input(s, name, shadow, positive=False, nonneg=False):
        assert name not in terms.VIDX, f"duplicate input {name}"
        i = terms.vidx(name)
        s.inputs.append(i)
        s.shadow[i] = to_frac(shadow)
        if positive:
            s.positive.add(i)
            s.nonneg.add(i)
            s.pre.append(s.zv(i) > 0)
        elif nonneg:
            s.nonneg.add(i)
            s.pre.append(s.zv(i) >= 0)
        return Sym(Rat(Poly.varidx(i)))

    def new_gen(s, prefix, shadow):
        s.gen_n += 1
        name = f"g!{prefix}{s.gen_n}"
        i = terms.vidx(name)
        s.shadow[i] = shadow
        return i

    # ---- z3 conversion ---------------------------------------------------------------------
    def p2z(s, p):
        if not p.t:
            return z3.RealVal(0)
        ts = []
        for m, c in p.t.items():
            fs = []
            if c != 1 or not m:
                fs.append(z3.RealVal(str(c)))
            for v, e in m:
                x = s.zv(v)
                fs.extend([x] * e)
            t = fs[0]
            for f in fs[1:]:
                t = t * f
            ts.append(t)
        return z3.Sum(ts) if len(ts) > 1 else ts[0]

    def r2z(s, r):
        n = s.p2z(r.n)
        if not r.d:
            return n
        return n / s.p2z(r.denpoly())

    # ---- shadow evaluation -----------------------------------------------------------------
    def peval(s, p):
        sh = s.shadow
        try:
            exact = all(isinstance(sh[v], Fraction) for v in p.vars())
        except KeyError as e:
            raise KeyError(f"no shadow for {terms.VARS[e.args[0]]}")
        if exact:
            return p.subs_exact(sh)
        return p.subs_float({v: float(x) for v, x in sh.items() if v in p.vars()})

    def reval(s, r):
        n = s.peval(r.n)
        if not r.d:
            return n
        d = 1
        for f, k in r.d.items():
            d = d * s.peval(f)**k
        if d == 0:
            return float('nan')
        return n / d

    # ---- sign knowledge (cheap, syntactic) ------------------------------------------------
    def sign_of_poly(s, p):
        """+1 if p > 0 is syntactically implied by the known-positive variables, -1 if p < 0, 0 if
        p is the zero polynomial, None if unknown"""
        if not p.t:
            return 0
        sg = None
        strict = False
        for m, c in p.t.items():
            ms = 1 if c > 0 else -1
            mstrict = True
            for v, e in m:
                if e % 2 == 0:
                    if v not in s.positive:
                        mstrict = False
                    continue
                if v in s.positive:
                    continue
                if v in s.nonneg:
                    mstrict = False
                    continue
                return None
            if sg is None:
                sg = ms
            elif sg != ms:
                return None
            strict = strict or mstrict
        return sg if strict else None

    def sign_of_rat(s, r):
        sn = s.sign_of_poly(r.n)
        if sn is None or sn == 0:
            return sn
        for f, k in r.d.items():
            sf = s.sign_of_poly(f)
            if sf is None:
                if k % 2 == 0:
                    continue
                return None
            if sf < 0 and k % 2:
                sn = -sn
        return sn

    # ---- path condition --------------------------------------------------------------------
    def branch(s, expr, shadow):
        """decide a symbolic condition on the current path: follows the shadow, records the literal"""
        e = z3.simplify(expr)
        if z3.is_true(e):
            return True
        if z3.is_false(e):
            return False
        k = e.get_id()
        d = s.decided.get(k)
        if d is not None:
            return d
        ne = z3.simplify(z3.Not(e))
        s.forks += 1
        val = bool(shadow)
        s.decided[k] = val
        s.decided[ne.get_id()] = not val
        s.pc.append(e if val else ne)
        s.pc_ndefs.append(len(s.defs))
        # keep the asts alive (ids are only unique while referenced)
        s._keep = getattr(s, "_keep", [])
        s._keep.append((e, ne))
        return val

    def require(s, kind, cond_expr, shadow_ok):
        """domain event: the operation is only defined if cond holds"""
        e = z3.simplify(cond_expr)
        if z3.is_true(e):
            return
        s.domain.append((kind, e, bool(shadow_ok)))

    def pc_formula(s):
        return list(s.pc)


E = Engine()


def to_frac(x):
    if isinstance(x, Fraction):
        return x
    if isinstance(x, (int, np.integer)):
        return Fraction(int(x))
    if isinstance(x, (float, np.floating)):
        return Fraction(float(x))
    if isinstance(x, str):
        return Fraction(x)
    raise TypeError(type(x))


NUM = (int, float, complex, Fraction, np.number, bool, np.bool_)  # includes PyFloatSym / PyComplexSym (subclasses)


class SymBool:
    __slots__ = ("e", "v")

    def __init__(s, e, v):
        s.e = e
        s.v = bool(v)

    @staticmethod
    def lift(b):
        if isinstance(b, SymBool):
            return b
        b = bool(b)
        return SymBool(z3.BoolVal(b), b)

    def __and__(a, b):
        if isinstance(b, np.ndarray):
            return NotImplemented
        b = SymBool.lift(b)
        return SymBool(z3.And(a.e, b.e), a.v and b.v)

    __rand__ = __and__

    def __or__(a, b):
        if isinstance(b, np.ndarray):
            return NotImplemented
        b = SymBool.lift(b)
        return SymBool(z3.Or(a.e, b.e), a.v or b.v)

    __ror__ = __or__

    def __invert__(a):
        return SymBool(z3.Not(a.e), not a.v)

    def __bool__(s):
        return E.branch(s.e, s.v)

    def is_const(s):
        e = z3.simplify(s.e)
        return z3.is_true(e) or z3.is_false(e)

    def __mul__(a, b):
        # (cond) * 1.  idiom
        return (C(1) if bool(a) else C(0)) * b

    __rmul__ = __mul__

    def __add__(a, b):
        return (C(1) if bool(a) else C(0)) + b

    __radd__ = __add__

    def __repr__(s):
        return f"SymBool({s.v}: {s.e})"


def C(x):
    """coerce to Sym"""
    if isinstance(x, Sym):
        return x
    if isinstance(x, PyNum):
        return x.sym
    if isinstance(x, SymBool):
        return C(1) if bool(x) else C(0)
    if isinstance(x, (complex, np.complexfloating)):
        return Sym(Rat.const(Fraction(float(x.real))), Rat.const(Fraction(float(x.imag))))
    if isinstance(x, (bool, np.bool_)):
        return Sym(R1 if x else R0)
    if isinstance(x, np.ndarray) and x.ndim == 0:
        return C(x.item())
    if isinstance(x, (float, np.floating)):
        if x != x:
            return NAN
        if x in (float('inf'), float('-inf')):
            raise Inconclusive(f"non-finite constant {x} entered the symbolic computation")
        return Sym(Rat.const(Fraction(float(x))))
    if isinstance(x, np.integer):
        x = int(x)
    return Sym(Rat.const(Fraction(x)))


class Sym:
    """exact complex scalar re + i*im, each a Rat over the engine's variables"""
    __slots__ = ("re", "im", "zr", "zi")

    def __init__(s, re, im=R0, zr=None, zi=None):
        s.re = re
        s.im = im
        s.zr = zr  # optional un-normalised z3 term of the real part (z-DAG mode, see Engine.zdag)
        s.zi = zi

    def z(s):
        """(real, imag) z3 terms: the DAG built by the executed operations if available, else the
        normal form"""
        zr = s.zr if s.zr is not None else E.r2z(s.re)
        zi = s.zi if s.zi is not None else (E.r2z(s.im) if not s.im.is_zero() else None)
        return zr, zi

    # ---- numpy-scalar look-alike attributes --------------------------------------------
    shape = ()
    ndim = 0
    size = 1

    @property
    def real(a):
        return Sym(a.re, R0, a.zr, None)

    @property
    def imag(a):
        return Sym(a.im, R0, a.zi, None)

    @property
    def T(a):
        return a

    def conjugate(a):
        if a.im.is_zero():
            return a
        return Sym(a.re, -a.im, a.zr, (-a.zi if a.zi is not None else None))

    conj = conjugate

    def item(a):
        return a

    def squeeze(a, *args, **kw):
        return a

    def sum(a, *args, **kw):
        return a

    def is_real(a):
        return a.im.is_zero()

    def is_const(a):
        return a.re.is_const() and a.im.is_const()

    def is_zero(a):
        return a.re.is_zero() and a.im.is_zero()

    def const_value(a):
        r = a.re.cval()
        if a.im.is_zero():
            return r
        return complex(r, a.im.cval())

    @property
    def v(a):
        """shadow value"""
        r = E.reval(a.re)
        if a.im.is_zero():
            return r
        return complex(r, E.reval(a.im))

    # ---- arithmetic -----------------------------------------------------------------------
    def __add__(a, b):
        if not isinstance(b, (Sym, SymBool) + NUM):
            return NotImplemented
        b = C(b)
        if isinstance(b, NaNSym):
            return NAN
        if not b.re.n.t and not b.im.n.t:
            return a
        if not a.re.n.t and not a.im.n.t:
            return b
        r = Sym(a.re + b.re, a.im + b.im)
        if E.zdag:
            (ar, ai), (br, bi) = a.z(), b.z()
            r.zr = ar + br
            r.zi = (ai + bi) if (ai is not None and bi is not None) else (ai if bi is None else bi)
        _tr('+', a, b, r)
        return r

    __radd__ = __add__

    def __neg__(a):
        r = Sym(-a.re, -a.im)
        if E.zdag:
            ar, ai = a.z()
            r.zr = -ar
            r.zi = -ai if ai is not None else None
        return r

    def __pos__(a):
        return a

    def __sub__(a, b):
        if not isinstance(b, (Sym, SymBool) + NUM):
            return NotImplemented
        return a + (-C(b))

    def __rsub__(a, b):
        if not isinstance(b, (Sym, SymBool) + NUM):
            return NotImplemented
        return C(b) + (-a)

    def __mul__(a, b):
        if not isinstance(b, (Sym, SymBool) + NUM):
            return NotImplemented
        b = C(b)
        if isinstance(b, NaNSym):
            return NAN
        if (not a.re.n.t and not a.im.n.t) or (not b.re.n.t and not b.im.n.t):
            return ZERO
        if a.im.is_zero() and b.im.is_zero():
            if not b.re.d and len(b.re.n.t) == 1 and b.re.n.t.get(()) == 1:
                return a
            if not a.re.d and len(a.re.n.t) == 1 and a.re.n.t.get(()) == 1:
                return b
            r = Sym(a.re * b.re)
        else:
            r = Sym(a.re * b.re - a.im * b.im, a.re * b.im + a.im * b.re)
        if E.zdag:
            (ar, ai), (br, bi) = a.z(), b.z()
            if ai is None and bi is None:
                r.zr = ar * br
            elif ai is None:
                r.zr, r.zi = ar * br, ar * bi
            elif bi is None:
                r.zr, r.zi = ar * br, ai * br
            else:
                r.zr, r.zi = ar * br - ai * bi, ar * bi + ai * br
        _tr('*', a, b, r)
        return r

    __rmul__ = __mul__

    def __truediv__(a, b):
        if not isinstance(b, (Sym, SymBool) + NUM):
            return NotImplemented
        b = C(b)
        if isinstance(b, NaNSym):
            return NAN
        if b.is_zero():
            if a.is_zero():
                return NAN  # 0/0 is nan in IEEE arithmetic (numpy warns, does not raise)
            raise Inconclusive("division of a non-zero value by exact zero (inf is not modelled)")
        if not b.is_const():
            # domain event: divisor must be non-zero
            if b.im.is_zero():
                if E.sign_of_rat(b.re) is None:
                    E.require("div", E.p2z(b.re.n) != 0, E.peval(b.re.n) != 0)
            else:
                E.require("div", z3.Or(E.p2z(b.re.n) != 0, E.p2z(b.im.n) != 0),
                          E.peval(b.re.n) != 0 or E.peval(b.im.n) != 0)
        if b.im.is_zero():
            i = b.re.inv()
            r = Sym(a.re * i, a.im * i if not a.im.is_zero() else R0)
            if E.zdag:
                (ar, ai), (br, bi) = a.z(), b.z()
                r.zr = ar / br
                r.zi = ai / br if ai is not None else None
        else:
            zd = E.zdag
            E.zdag = False
            try:
                d = (b.re * b.re + b.im * b.im).inv()
                n = a * b.conjugate()
                r = Sym(n.re * d, n.im * d)
            finally:
                E.zdag = zd
            if zd:
                (ar, ai), (br, bi) = a.z(), b.z()
                if ai is None:
                    ai = z3.RealVal(0)
                den = br * br + bi * bi
                r.zr = (ar * br + ai * bi) / den
                r.zi = (ai * br - ar * bi) / den
        _tr('/', a, b, r)
        return r

    def __rtruediv__(a, b):
        if not isinstance(b, (Sym, SymBool) + NUM):
            return NotImplemented
        return C(b) / a

    def __pow__(a, k):
        if isinstance(k, Sym):
            if not k.is_const() or not k.im.is_zero():
                raise Inconclusive("symbolic exponent")
            k = k.re.cval()
        if isinstance(k, (float, np.floating)):
            k = Fraction(float(k))
        if isinstance(k, (int, np.integer)):
            k = Fraction(int(k))
        if isinstance(k, Fraction):
            if k.denominator == 1:
                k = int(k)
                if k < 0:
                    return C(1) / (a**(-k))
                r = C(1)
                for _ in range(k):
                    r = r * a
                return r
            if k.denominator == 2:
                s = a.sqrt()
                return s**int(k.numerator)
        raise Inconclusive(f"unsupported power {k}")

    def __rpow__(a, b):
        raise Inconclusive("symbolic exponent")

    def __abs__(a):
        if a.im.is_zero():
            if a.re.is_const():
                return C(abs(a.re.cval()))
            sg = E.sign_of_rat(a.re)
            if sg is not None:
                return a if sg >= 0 else -a
            if E.abs_gen:
                return _abs_gen(a)
            return a if bool(a >= 0) else -a
        return (a * a.conjugate()).real.sqrt()

    def sqrt(a):
        if not a.im.is_zero():
            return _csqrt(a)
        r = a.re
        if r.is_zero():
            return C(0)
        if r.is_const():
            f = r.cval()
            if f < 0:
                raise Inconclusive("sqrt of a negative constant")
            n, d = math.isqrt(f.numerator), math.isqrt(f.denominator)
            if n * n == f.numerator and d * d == f.denominator:
                return C(Fraction(n, d))
        ns = _psqrt(r.n)
        dp = r.denpoly() if r.d else terms.ONE
        ds = _psqrt(dp)
        if ns is not None and ds is not None:
            cand = Sym(Rat(ns)) / Sym(Rat(ds)) if r.d else Sym(Rat(ns))
            return abs(cand)
        key = hash(r)
        hit = E.sqrt_memo.get(key)
        if hit is not None and hit[0] == r:
            return hit[1]
        # domain: radicand >= 0
        sg = E.sign_of_rat(r)
        if sg is None:
            E.require("sqrt", E.r2z(r) >= 0, E.reval(r) >= 0)
        elif sg < 0:
            raise Inconclusive("sqrt of a provably negative value")
        # sqrt(n/d) = sqrt(n*d)/|d|
        nd = r.n * dp if r.d else r.n
        shv = float(E.peval(nd))
        gi = E.new_gen("sqrt", math.sqrt(shv) if shv >= 0 else float('nan'))
        g = E.zv(gi)
        E.defs.append(z3.And(g >= 0, g * g == E.p2z(nd)))
        terms.RULES[gi] = nd
        E.nonneg.add(gi)
        if sg is not None and sg > 0:
            E.positive.add(gi)
        gs = Sym(Rat(Poly.varidx(gi)))
        out = gs / abs(Sym(Rat(dp))) if r.d else gs
        E.sqrt_memo[key] = (r, out)
        return out

    # ---- comparisons ----------------------------------------------------------------------
    def _cmp(a, b, op):
        b = C(b)
        if isinstance(b, NaNSym):
            return SymBool(z3.BoolVal(False), False)
        if not (a.im.is_zero() and b.im.is_zero()):
            # numpy orders complex numbers lexicographically by (real, imaginary) (the Hutchinson stopping rule on a complex operator gets here)
            ar, br, ai, bi = Sym(a.re), Sym(b.re), Sym(a.im), Sym(b.im)
            strict = ar._cmp(br, 'lt' if op in ('lt', 'le') else 'gt')
            return strict | ((ar == br) & ai._cmp(bi, op))
        d = a.re - b.re
        if d.is_const():
            val = OPS[op](d.cval(), 0)
            return SymBool(z3.BoolVal(bool(val)), val)
        sg = E.sign_of_rat(d)
        if sg is not None:
            val = OPS[op](sg, 0)
            return SymBool(z3.BoolVal(bool(val)), val)
        sv = E.reval(d)
        # n/den op 0: multiply through when the denominator's sign is known
        den_sign = 1
        known = True
        for f, k in d.d.items():
            if k % 2 == 0:
                continue
            sf = E.sign_of_poly(f)
            if sf is None:
                known = False
                break
            den_sign *= sf
        if known:
            lhs = E.p2z(d.n) if den_sign > 0 else E.p2z(-d.n)
        else:
            lhs = E.r2z(d)
        return SymBool(OPS[op](lhs, 0), OPS[op](sv, 0))

    def __lt__(a, b):
        return a._cmp(b, 'lt')

    def __le__(a, b):
        return a._cmp(b, 'le')

    def __gt__(a, b):
        return a._cmp(b, 'gt')

    def __ge__(a, b):
        return a._cmp(b, 'ge')

    def __eq__(a, b):
        if not isinstance(b, (Sym, SymBool) + NUM):
            return NotImplemented
        b = C(b)
        if isinstance(b, NaNSym):
            return SymBool(z3.BoolVal(False), False)
        d = a - b
        if d.is_zero():
            return SymBool(z3.BoolVal(True), True)
        if d.is_const():
            return SymBool(z3.BoolVal(False), False)
        if d.im.is_zero():
            sg = E.sign_of_rat(d.re)
            if sg is not None and sg != 0:
                return SymBool(z3.BoolVal(False), False)
            return SymBool(E.p2z(d.re.n) == 0, E.peval(d.re.n) == 0)
        return SymBool(z3.And(E.p2z(d.re.n) == 0, E.p2z(d.im.n) == 0), E.peval(d.re.n) == 0 and E.peval(d.im.n) == 0)

    def __ne__(a, b):
        r = a.__eq__(b)
        if r is NotImplemented:
            return r
        return ~r

    __hash__ = None

    def __bool__(a):
        return bool(a != 0)

    def __float__(a):
        if a.is_const() and a.im.is_zero():
            return float(a.re.cval())
        raise Inconclusive("symbolic value was forced to a concrete float (unmodelled C boundary)")

    def __int__(a):
        if a.is_const() and a.im.is_zero() and a.re.cval().denominator == 1:
            return int(a.re.cval())
        raise Inconclusive("symbolic value was forced to a concrete int")

    def __complex__(a):
        if a.is_const():
            return complex(a.const_value())
        raise Inconclusive("symbolic value was forced to a concrete complex (unmodelled C boundary)")

    def __index__(a):
        return a.__int__()

    def __repr__(a):
        if a.im.is_zero():
            return f"S{a.re}"
        return f"S[{a.re} + i{a.im}]"

    def astype(a, dt):
        dt = np.dtype(dt)
        if dt.kind == 'f':
            return a.real
        return a


def _numlike(b):
    return isinstance(b, (Sym, SymBool, np.ndarray) + NUM)


def _pywrap(a, b, r):
    """python number (op) python number is a python number again"""
    if isinstance(b, (int, float, complex)) and not isinstance(b, np.generic):
        cx = isinstance(a, complex) or isinstance(b, complex)
        return PyComplexSym(r) if cx else PyFloatSym(r)
    return r


class PyNum:
    """mixin: a *symbolic python number* — an instance of float / complex (so isinstance checks and
    numbers.Number dispatch in the code under test behave as for a real python scalar) whose arithmetic is
    delegated to the Sym it carries"""
    __hash__ = None

    def __add__(a, b):
        if not _numlike(b):
            return NotImplemented
        return _pywrap(a, b, a.sym + b)

    def __radd__(a, b):
        if not _numlike(b):
            return NotImplemented
        return _pywrap(a, b, a.sym + b)

    def __sub__(a, b):
        if not _numlike(b):
            return NotImplemented
        return _pywrap(a, b, a.sym - b)

    def __rsub__(a, b):
        if not _numlike(b):
            return NotImplemented
        return _pywrap(a, b, b - a.sym)

    def __mul__(a, b):
        if not _numlike(b):
            return NotImplemented
        return _pywrap(a, b, a.sym * b)

    def __rmul__(a, b):
        if not _numlike(b):
            return NotImplemented
        return _pywrap(a, b, a.sym * b)

    def __truediv__(a, b):
        if not _numlike(b):
            return NotImplemented
        return _pywrap(a, b, a.sym / b)

    def __rtruediv__(a, b):
        if not _numlike(b):
            return NotImplemented
        return _pywrap(a, b, b / a.sym)

    def __neg__(a):
        return _pywrap(a, 0, -a.sym)

    def __pos__(a):
        return a.sym

    def __abs__(a):
        return abs(a.sym)

    def __pow__(a, k):
        return a.sym**k

    def __eq__(a, b):
        return a.sym == b

    def __ne__(a, b):
        return a.sym != b

    def __lt__(a, b):
        return a.sym < b

    def __le__(a, b):
        return a.sym <= b

    def __gt__(a, b):
        return a.sym > b

    def __ge__(a, b):
        return a.sym >= b

    def __bool__(a):
        return bool(a.sym)

    def conjugate(a):
        return a.sym.conjugate()

    @property
    def real(a):
        return a.sym.real

    @property
    def imag(a):
        return a.sym.imag

    def __repr__(a):
        return f"Py{a.sym!r}"


class PyFloatSym(PyNum, float):
    def __new__(cls, sym):
        try:
            o = float.__new__(cls, float(sym.v))
        except Exception:
            o = float.__new__(cls, 0.0)
        o.sym = sym
        return o


class PyComplexSym(PyNum, complex):
    def __new__(cls, sym):
        try:
            o = complex.__new__(cls, complex(sym.v))
        except Exception:
            o = complex.__new__(cls, 0j)
        o.sym = sym
        return o


ZERO = Sym(R0)


class NaNSym(Sym):
    """IEEE nan: absorbing for arithmetic, every ordering / equality comparison is False (!= is True)"""
    __slots__ = ()

    def _n(a, *args, **kw):
        return NAN

    __add__ = __radd__ = __sub__ = __rsub__ = __mul__ = __rmul__ = __truediv__ = __rtruediv__ = __pow__ = _n
    __neg__ = __pos__ = __abs__ = sqrt = conjugate = conj = _n

    @property
    def real(a):
        return NAN

    @property
    def imag(a):
        return NAN

    def is_zero(a):
        return False

    def is_const(a):
        return True

    def const_value(a):
        return float('nan')

    @property
    def v(a):
        return float('nan')

    def _cmp(a, b, op):
        return SymBool(z3.BoolVal(False), False)

    def __eq__(a, b):
        return SymBool(z3.BoolVal(False), False)

    def __ne__(a, b):
        return SymBool(z3.BoolVal(True), True)

    def z(s):
        return z3.Real("nan!"), None

    def __float__(a):
        return float('nan')

    def __repr__(a):
        return "S(nan)"


NAN = NaNSym(R0)

OPS = {
    'lt': lambda x, y: x < y,
    'le': lambda x, y: x <= y,
    'gt': lambda x, y: x > y,
    'ge': lambda x, y: x >= y,
}


def _msqrt(p):
    """square root of a polynomial that is a single perfect-square monomial, else None"""
    if len(p.t) != 1:
        return None
    (m, c), = p.t.items()
    if c < 0 or any(e % 2 for v, e in m):
        return None
    n, d = math.isqrt(c.numerator), math.isqrt(c.denominator)
    if n * n != c.numerator or d * d != c.denominator:
        return None
    return Poly({tuple((v, e // 2) for v, e in m): Fraction(n, d)})


def _abs_gen_poly(p):
    """|p| for a polynomial p of unknown sign as a generator g with g >= 0 and g^2 == p^2"""
    sg = E.sign_of_poly(p)
    if sg is not None:
        return Sym(Rat(p if sg >= 0 else -p))
    key = ("abs", hash(p))
    hit = E.sqrt_memo.get(key)
    if hit is not None and hit[0] == p:
        return hit[1]
    neg = E.sqrt_memo.get(("abs", hash(-p)))
    if neg is not None and neg[0] == -p:
        return neg[1]
    gi = E.new_gen("abs", abs(float(E.peval(p))))
    g = E.zv(gi)
    pz = E.p2z(p)
    E.defs.append(z3.And(g >= 0, g * g == pz * pz))
    terms.RULES[gi] = p * p
    E.nonneg.add(gi)
    out = Sym(Rat(Poly.varidx(gi)))
    E.sqrt_memo[key] = (p, out)
    return out


def _csqrt(a):
    """principal square root of a complex value as a pair of generators (u, v): (u + i v)^2 == a, u >= 0 (and v >= 0 when u == 0).  No rewrite
    rule: the result is an opaque, correctly constrained value (enough for error estimates that only steer a loop)"""
    import cmath
    key = ("csqrt", hash(a.re), hash(a.im))
    hit = E.sqrt_memo.get(key)
    if hit is not None and hit[0] == (a.re, a.im):
        return hit[1]
    sv = complex(E.reval(a.re), E.reval(a.im))
    try:
        w = cmath.sqrt(sv)
    except (ValueError, OverflowError):
        w = complex('nan')
    ui, vi = E.new_gen("csqrtre", w.real), E.new_gen("csqrtim", w.imag)
    u, v = E.zv(ui), E.zv(vi)
    E.defs.append(z3.And(u >= 0, u * u - v * v == E.r2z(a.re), 2 * u * v == E.r2z(a.im), z3.Implies(u == 0, v >= 0)))
    E.nonneg.add(ui)
    out = Sym(Rat(Poly.varidx(ui)), Rat(Poly.varidx(vi)))
    E.sqrt_memo[key] = ((a.re, a.im), out)
    return out


def _abs_gen(a):
    r = a.re
    num = _abs_gen_poly(r.n)
    if not r.d:
        return num
    den = C(1)
    for f, k in r.d.items():
        fa = _abs_gen_poly(f) if k % 2 else Sym(Rat(f))
        for _ in range(k if k % 2 else k // 2):
            den = den * (fa if k % 2 else Sym(Rat(f * f)))
    return num / den


def _psqrt(p):
    """exact square root of a polynomial that is a perfect square (q with q*q == p), else None"""
    q = _msqrt(p)
    if q is not None or len(p.t) < 3 or (terms.RULES and any(v in terms.RULES for v in p.vars())):
        return q
    m0, c0 = p.lt()
    t0 = _msqrt(Poly({m0: c0}))
    if t0 is None:
        return None
    q = t0
    two_t0 = t0.scale(2)
    for _ in range(len(p.t) + 2):
        r = p - q * q
        if not r.t:
            return q
        mr, cr = r.lt()
        t = Poly({mr: cr}).divexact(two_t0)
        if t is None:
            return None
        q = q + t
    return None


def _tr(op, a, b, r):
    t = E.trace
    if t is not None:
        t(op, a, b, r)


def ite(c, a, b):
    """select; resolves syntactically or forks the path"""
    if isinstance(c, SymBool):
        a_, b_ = C(a), C(b)
        if (a_ - b_).is_zero():
            return a_
        return a_ if bool(c) else b_
    if isinstance(c, Sym):
        c = bool(c)
    return C(a) if c else C(b)


def uf_apply(name, x):
    """uninterpreted real function application, memoised on the normal form of its argument
    (syntactic congruence) and defined to z3 as F(arg) (semantic congruence)."""
    x = C(x)
    if not x.im.is_zero():
        raise Inconclusive(f"{name} of a complex symbolic value")
    key = (name, hash(x.re))
    hit = E.uf_memo.get(key)
    if hit is not None and hit[0] == x.re:
        return hit[1]
    if name not in E.ufs:
        E.ufs[name] = z3.Function(name, z3.RealSort(), z3.RealSort())
    import cmath
    try:
        xv = float(E.reval(x.re))
        sh = {'exp': math.exp, 'log': lambda t: math.log(t) if t > 0 else float('nan')}.get(name, lambda t: math.sin(3 * t + 1) + 2)(xv)
    except (OverflowError, ValueError):
        sh = float('nan')
    gi = E.new_gen(name, sh)
    E.defs.append(E.zv(gi) == E.ufs[name](E.r2z(x.re)))
    if name == 'exp':
        E.positive.add(gi)
        E.nonneg.add(gi)
        E.defs.append(E.zv(gi) > 0)
    if name == 'log':
        # sound facts about the real logarithm (keep solver models through the uninterpreted symbol close to replayable ones):
        # 1 - 1/x <= log x <= x - 1 for x > 0, hence the sign of log x is the sign of x - 1
        za, zg = E.r2z(x.re), E.zv(gi)
        E.defs.append(z3.Implies(za > 0, z3.And(zg <= za - 1, zg * za >= za - 1)))
    out = Sym(Rat(Poly.varidx(gi)))
    E.uf_memo[key] = (x.re, out)
    E.gen_args[gi] = (name, x)
    return out

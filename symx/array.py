"""SymArray: an ndarray subclass with object storage (elements are Sym / SymBool / exact constants) that
reports the *logical* dtype the corresponding real array would have, so that the unmodified cola code
(dtype promotion, backend lookup, pytree leaf detection, in-place updates, reshapes, fancy indexing)
runs on it unchanged."""
import numpy as np
import z3

from .core import C, E, NUM, Inconclusive, PyNum, Sym, SymBool, ite, uf_apply

_F64 = np.dtype('float64')


def _real_dtype(ld):
    ld = np.dtype(ld)
    if ld.kind == 'c':
        return np.finfo(ld).dtype
    return ld


def W(r, ld):
    """wrap a raw result (object ndarray or bare element) as a SymArray of logical dtype ld"""
    if isinstance(r, SymArray):
        r = r.raw
    if isinstance(r, np.ndarray):
        if r.dtype != object:
            r = r.astype(object)
        return SymArray(r, ld)
    a = np.empty((), dtype=object)
    a[()] = r
    return SymArray(a, ld)


def _coerce_elem(x):
    if isinstance(x, (Sym, SymBool)):
        return x
    return C(x)


_lift = np.frompyfunc(_coerce_elem, 1, 1)


def lift(x, ld=None):
    """concrete array / scalar -> SymArray with exact constants"""
    if isinstance(x, SymArray):
        return x if ld is None else x.astype(ld)
    x = np.asarray(x)
    ld = np.dtype(ld) if ld is not None else x.dtype
    if x.ndim == 0:
        return W(_coerce_elem(x.item()), ld)
    if x.size == 0:
        return SymArray(np.empty(x.shape, dtype=object), ld)
    return SymArray(_lift(x.astype(object)), ld)


def _weak(x):
    """python-scalar stand-in used for dtype promotion of a bare symbolic scalar"""
    if isinstance(x, PyNum):
        return 0j if isinstance(x, complex) else 0.0
    if isinstance(x, Sym):
        return 0.0 if x.im.is_zero() else 0j
    if isinstance(x, SymBool):
        return False
    return x


_CMP = {
    np.greater: lambda a, b: C(a) > C(b),
    np.less: lambda a, b: C(a) < C(b),
    np.greater_equal: lambda a, b: C(a) >= C(b),
    np.less_equal: lambda a, b: C(a) <= C(b),
    np.equal: lambda a, b: C(a) == C(b),
    np.not_equal: lambda a, b: C(a) != C(b),
}


def _sb(x):
    return x if isinstance(x, SymBool) else SymBool.lift(bool(x))


_LOGIC2 = {
    np.logical_and: lambda a, b: _sb(a) & _sb(b),
    np.bitwise_and: lambda a, b: _sb(a) & _sb(b),
    np.logical_or: lambda a, b: _sb(a) | _sb(b),
    np.bitwise_or: lambda a, b: _sb(a) | _sb(b),
}
_LOGIC1 = {
    np.logical_not: lambda a: ~_sb(a),
    np.invert: lambda a: ~_sb(a),
}


def _sym_sign(a):
    a = C(a)
    if not a.im.is_zero():
        raise Inconclusive("sign of complex symbolic value")
    if a.is_const():
        v = a.re.cval()
        return C((v > 0) - (v < 0))
    if getattr(E, "rademacher", False):
        # sign of a continuous random probe: a generator r with r^2 = 1 (|r| = 1 almost surely), memoised on its argument
        from . import terms
        from .terms import Poly, Rat
        key = ("rad", hash(a.re))
        hit = E.sqrt_memo.get(key)
        if hit is not None and hit[0] == a.re:
            return hit[1]
        gi = E.new_gen("rad", 1.0 if float(E.reval(a.re)) >= 0 else -1.0)
        g = E.zv(gi)
        E.defs.append(g * g == 1)
        terms.RULES[gi] = terms.ONE
        out = Sym(Rat(Poly.varidx(gi)))
        E.sqrt_memo[key] = (a.re, out)
        return out
    if bool(a > 0):
        return C(1)
    if bool(a < 0):
        return C(-1)
    return C(0)


def _sym_exp(a):
    a = C(a)
    if a.is_zero():
        return C(1)
    if a.im.is_zero() and not a.re.d and len(a.re.n.t) > 1:
        # exp of a sum is the product of the exps of its terms (sound rewrite; makes exp(a + b) and exp(a) exp(b) congruent)
        from .terms import Poly, Rat
        out = C(1)
        for m, c in sorted(a.re.n.t.items()):
            out = out * (uf_apply('exp', Sym(Rat(Poly({m: c})))) if m else _exp_const(c))
        return out
    return uf_apply('exp', a)


def _exp_const(c):
    return uf_apply('exp', C(c))


def _sym_log(a):
    a = C(a)
    if a.is_const() and a.im.is_zero() and a.re.cval() == 1:
        return C(0)
    if a.im.is_zero():
        sg = E.sign_of_rat(a.re)
        if sg is None:
            E.require("log", E.r2z(a.re) > 0, E.reval(a.re) > 0)
    return uf_apply('log', a)


_UN = {
    np.sqrt: lambda a: C(a).sqrt(),
    np.conjugate: lambda a: C(a).conjugate(),
    np.absolute: lambda a: abs(C(a)),
    np.negative: lambda a: -C(a),
    np.positive: lambda a: C(a),
    np.sign: _sym_sign,
    np.exp: _sym_exp,
    np.log: _sym_log,
    np.square: lambda a: C(a) * C(a),
    np.reciprocal: lambda a: C(1) / C(a),
    np.isnan: lambda a: False,
    np.isinf: lambda a: False,
    np.isfinite: lambda a: True,
}
_BIN = {
    np.add: lambda a, b: a + b,
    np.subtract: lambda a, b: a - b,
    np.multiply: lambda a, b: a * b,
    np.true_divide: lambda a, b: C(a) / C(b),
    np.power: lambda a, b: C(a)**b,
    np.maximum: lambda a, b: ite(C(a) >= C(b), a, b),
    np.minimum: lambda a, b: ite(C(a) <= C(b), a, b),
}
_PYF = {}


def _pyf(f, nin):
    k = (f, nin)
    if k not in _PYF:
        _PYF[k] = np.frompyfunc(f, nin, 1)
    return _PYF[k]


class SymArray(np.ndarray):
    __array_priority__ = 100

    def __new__(cls, objarr, ld):
        o = np.asarray(objarr, dtype=object).view(cls)
        o._ld = np.dtype(ld)
        return o

    def __array_finalize__(self, obj):
        self._ld = getattr(obj, '_ld', _F64)

    # ---- dtype facade -----------------------------------------------------------------------
    @property
    def dtype(self):
        return self._ld

    @property
    def raw(self):
        return self.view(np.ndarray)

    @property
    def real(self):
        if self._ld.kind != 'c':
            return self
        return W(_pyf(lambda x: C(x).real, 1)(self.raw), _real_dtype(self._ld))

    @property
    def imag(self):
        return W(_pyf(lambda x: C(x).imag, 1)(self.raw), _real_dtype(self._ld))

    @property
    def device(self):
        # NumPy >= 2 arrays have the array-API attribute `device` ("cpu"); older ones do not have the attribute at all
        return getattr(np.empty(0), "device")

    def astype(self, dt, **kw):
        dt = np.dtype(dt)
        o = self.raw.copy()
        if dt.kind == 'f' and self._ld.kind == 'c':
            o = _pyf(lambda x: C(x).real, 1)(o)
        if dt.kind in 'iub' and self._ld.kind in 'fc':
            raise Inconclusive("cast of symbolic float array to integer")
        return W(o, dt)

    def conj(self):
        return np.conjugate(self)

    conjugate = conj

    def copy(self, order='C'):
        return W(self.raw.copy(), self._ld)

    def item(self, *a):
        return self.raw.item(*a)

    def tolist(self):
        return self.raw.tolist()

    def __getitem__(self, idx):
        idx = _idx(idx)
        r = np.ndarray.__getitem__(self, idx)
        if isinstance(r, SymArray):
            return r
        return W(r, self._ld)

    def __setitem__(self, idx, val):
        idx = _idx(idx)
        # numpy casts the assigned values to the array's dtype ('unsafe' casting for setitem): a complex
        # value stored into a real array loses its imaginary part (ComplexWarning)
        vld = None
        if isinstance(val, SymArray):
            vld = val._ld
            val = val.raw
        elif isinstance(val, np.ndarray) and val.dtype != object:
            vld = val.dtype
            val = _lift(val.astype(object)) if val.size else val.astype(object)
        elif isinstance(val, NUM):
            vld = np.dtype(complex) if isinstance(val, (complex, np.complexfloating)) else None
            val = C(val)
        elif isinstance(val, Sym):
            vld = np.dtype(complex) if not val.im.is_zero() else None
        if vld is not None and vld.kind == 'c' and self._ld.kind != 'c':
            val = _pyf(lambda x: C(x).real, 1)(val) if isinstance(val, np.ndarray) else C(val).real
        np.ndarray.__setitem__(self.view(np.ndarray), idx, val)

    def __bool__(self):
        if self.size != 1:
            raise ValueError("The truth value of an array with more than one element is ambiguous.")
        x = self.raw.reshape(-1)[0]
        if isinstance(x, Sym):
            return bool(x != 0)
        return bool(x)

    def __float__(self):
        return float(self.raw.reshape(-1)[0])

    def __int__(self):
        return int(self.raw.reshape(-1)[0])

    def __complex__(self):
        return complex(self.raw.reshape(-1)[0])

    def __index__(self):
        return int(self)

    def __format__(self, spec):
        return repr(self)

    def __repr__(self):
        return f"SymArray({self._ld}, shape={self.shape})"

    __str__ = __repr__

    def __abs__(self):
        return np.absolute(self)

    def sum(self, axis=None, dtype=None, out=None, keepdims=False, **kw):
        return np.sum(self, axis=axis, keepdims=keepdims)

    def mean(self, axis=None, **kw):
        return np.mean(self, axis=axis, **kw)

    def max(self, axis=None, **kw):
        return sym_max(self, axis=axis, **kw)

    def min(self, axis=None, **kw):
        return sym_min(self, axis=axis, **kw)

    def all(self, axis=None, **kw):
        return sym_all(self)

    def any(self, axis=None, **kw):
        return sym_any(self)

    # ---- ufuncs -------------------------------------------------------------------------------
    def __array_ufunc__(self, ufunc, method, *inputs, out=None, **kw):
        lds = []
        raw = []
        for x in inputs:
            if isinstance(x, SymArray):
                lds.append(x._ld)
                raw.append(x.raw)
            elif isinstance(x, np.ndarray):
                lds.append(x.dtype)
                raw.append(x.astype(object) if x.dtype != object else x)
            elif isinstance(x, PyNum):
                lds.append(_weak(x))
                raw.append(x.sym)
            elif isinstance(x, (Sym, SymBool)):
                lds.append(_weak(x))
                raw.append(x)
            elif isinstance(x, (list, tuple)):
                a = np.asarray(x)
                lds.append(a.dtype)
                raw.append(a.astype(object))
            else:
                lds.append(x)
                raw.append(x)
        kw.pop('dtype', None)
        kw.pop('casting', None)
        kw.pop('where', None) if kw.get('where', True) is True else None
        if 'where' in kw:
            raise Inconclusive("ufunc where= on symbolic arrays")
        try:
            ld = np.result_type(*lds)
        except Exception:
            ld = _F64
        fn = None
        if ufunc in _CMP:
            fn = _pyf(_CMP[ufunc], 2)
            ld = np.dtype(bool)
        elif ufunc in _LOGIC2:
            fn = _pyf(_LOGIC2[ufunc], 2)
            ld = np.dtype(bool)
        elif ufunc in _LOGIC1:
            fn = _pyf(_LOGIC1[ufunc], 1)
            ld = np.dtype(bool)
        elif ufunc in _UN:
            fn = _pyf(_UN[ufunc], 1)
            if ufunc is np.absolute:
                ld = _real_dtype(ld)
            elif ufunc in (np.isnan, np.isinf, np.isfinite):
                ld = np.dtype(bool)
            elif ufunc in (np.sqrt, np.exp, np.log, np.reciprocal) and np.dtype(ld).kind in 'iub':
                ld = _F64
        elif ufunc in _BIN:
            if method == '__call__':
                fn = _pyf(_BIN[ufunc], 2)
            else:
                fn = ufunc if ufunc in (np.add, np.multiply, np.subtract) else _pyf(_BIN[ufunc], 2)
            if ufunc is np.true_divide and np.dtype(ld).kind in 'iub':
                ld = _F64
        elif ufunc is np.matmul:
            fn = np.matmul
        else:
            raise Inconclusive(f"ufunc {ufunc.__name__} is not modelled symbolically")
        if method == 'reduce' and fn is not ufunc:
            # frompyfunc ufuncs support reduce
            pass
        r = getattr(fn, method)(*raw, **kw)
        if out is not None:
            o = out[0]
            if isinstance(o, SymArray):
                if not np.can_cast(ld, o._ld, 'same_kind'):
                    raise TypeError(f"Cannot cast ufunc '{ufunc.__name__}' output from {ld!r} to {o._ld!r} with casting rule "
                                    "'same_kind'")
                o.raw[...] = r
                return o
            raise Inconclusive("symbolic result written into a concrete array")
        return W(r, ld)

    # ---- numpy functions -----------------------------------------------------------------
    def __array_function__(self, func, types, args, kwargs):
        h = HANDLERS.get(func)
        if h is not None:
            return h(*args, **kwargs)
        if func.__module__ and func.__module__.startswith('numpy.linalg'):
            raise Inconclusive(f"np.linalg.{func.__name__} reached with symbolic input (no stub)")
        if func.__module__ and func.__module__.startswith('numpy.fft'):
            raise Inconclusive(f"np.fft.{func.__name__} reached with symbolic input (no stub)")
        lds = []

        def strip(x):
            if isinstance(x, SymArray):
                lds.append(x._ld)
                return x.raw
            if isinstance(x, np.ndarray) and x.dtype != object and x.dtype.kind in 'fc':
                lds.append(x.dtype)
                return x
            if isinstance(x, (list, tuple)):
                return type(x)(strip(y) for y in x)
            return x

        a = strip(args)
        k = {kk: strip(v) for kk, v in kwargs.items()}
        if func in (np.zeros_like, np.ones_like, np.full_like, np.empty_like):
            k.pop('dtype', None)
            r = func(*a, **k)
            ld = kwargs.get('dtype') or lds[0]
            return W(_lift(r) if r.size else r, ld)
        r = func(*a, **k)
        ld = np.result_type(*lds) if lds else _F64
        if func in (np.argsort, np.argmax, np.argmin, np.shape, np.ndim, np.size):
            return r

        def wrap(x):
            if isinstance(x, np.ndarray) and x.dtype == object:
                return W(x, ld)
            if isinstance(x, (Sym, SymBool)):
                return W(x, ld)
            if isinstance(x, (tuple, list)):
                return type(x)(wrap(y) for y in x)
            return x

        return wrap(r)


def _idx(idx):
    """index normalisation: 0-d / integer SymArrays are never valid indices; concrete stay as is"""
    if isinstance(idx, tuple):
        return tuple(_idx(i) for i in idx)
    if isinstance(idx, SymArray):
        if idx._ld.kind in 'iu':
            return np.vectorize(int, otypes=[np.int64])(idx.raw) if idx.ndim else int(idx.raw.item())
        raise Inconclusive("symbolic array used as an index")
    return idx


# --------------------------------------------------------------------------------------------
# symbolic implementations of data-dependent numpy functions
# --------------------------------------------------------------------------------------------
def _raw(x):
    if isinstance(x, SymArray):
        return x.raw
    x = np.asarray(x)
    return x.astype(object) if x.dtype != object else x


def _ld_of(x):
    if isinstance(x, SymArray):
        return x._ld
    if isinstance(x, np.ndarray):
        return x.dtype
    return _weak(x)


def sym_where(c, a=None, b=None):
    if a is None:
        raise Inconclusive("np.where(cond) on symbolic condition")
    cr = _raw(c)
    lds = [_ld_of(a), _ld_of(b)]
    av = _raw(a) if isinstance(a, np.ndarray) else a
    bv = _raw(b) if isinstance(b, np.ndarray) else b
    r = _pyf(ite, 3)(cr, av, bv)
    return W(r, np.result_type(*lds))


def sym_norm(x, ord=None, axis=None, keepdims=False):
    if ord not in (None, 2, 'fro'):
        raise Inconclusive(f"norm ord={ord}")
    v = _raw(x)
    if ord == 2 and (axis is None and v.ndim > 1):
        raise Inconclusive("spectral norm")
    sq = _pyf(lambda t: (C(t) * C(t).conjugate()).real, 1)(v)
    s = np.sum(sq, axis=axis, keepdims=keepdims)
    if isinstance(s, np.ndarray):
        r = _pyf(lambda t: C(t).sqrt(), 1)(s) if s.size else s
    else:
        r = C(s).sqrt()
    return W(r, _real_dtype(_ld_of(x)) if np.dtype(_ld_of(x)).kind in 'fc' else _F64)


def sym_any(x, axis=None, **kw):
    if axis is not None:
        raise Inconclusive("any(axis)")
    v = _raw(x).ravel()
    r = SymBool.lift(False)
    for t in v:
        if isinstance(t, Sym):
            t = (t != 0)
        r = r | _sb(t)
    return r


def sym_all(x, axis=None, **kw):
    if axis is not None:
        raise Inconclusive("all(axis)")
    v = _raw(x).ravel()
    r = SymBool.lift(True)
    for t in v:
        if isinstance(t, Sym):
            t = (t != 0)
        r = r & _sb(t)
    return r


def _reduce_sel(x, axis, keepdims, pick):
    v = _raw(x)
    red = _pyf(pick, 2)
    if axis is None:
        r = red.reduce(v.ravel())
        if keepdims:
            r = np.array(r, dtype=object).reshape((1, ) * v.ndim)
    else:
        r = red.reduce(v, axis=axis, keepdims=keepdims)
    return W(r, _ld_of(x))


def sym_max(x, axis=None, keepdims=False, **kw):
    return _reduce_sel(x, axis, keepdims, lambda a, b: ite(C(a) >= C(b), a, b))


def sym_min(x, axis=None, keepdims=False, **kw):
    return _reduce_sel(x, axis, keepdims, lambda a, b: ite(C(a) <= C(b), a, b))


def _sort_gt(a, b):
    """NumPy's sort order: complex values are ordered lexicographically (real part, then imaginary part)"""
    if a.im.is_zero() and b.im.is_zero():
        return bool(a > b)
    ar, br = Sym(a.re), Sym(b.re)
    if bool(ar > br):
        return True
    if bool(ar < br):
        return False
    return bool(Sym(a.im) > Sym(b.im))


def sym_argsort(x, axis=-1, **kw):
    """insertion sort with forking comparisons (stable, like the default for small arrays the
    result of a correct sort is unique whenever the keys are distinct)"""
    if isinstance(x, np.ndarray) and not isinstance(x, SymArray) and x.dtype != object:
        return np.argsort(x, axis=axis, **kw)
    v = _raw(x)
    if v.ndim == 0:
        return np.array(0)
    if v.ndim > 1:
        v2 = np.moveaxis(v, axis, -1)
        out = np.empty(v2.shape, dtype=np.int64)
        for i in np.ndindex(*v2.shape[:-1]):
            out[i] = sym_argsort(W(v2[i], _ld_of(x)))
        return np.moveaxis(out, -1, axis)
    idx = list(range(len(v)))
    for i in range(1, len(idx)):
        j = i
        while j > 0 and _sort_gt(C(v[idx[j - 1]]), C(v[idx[j]])):
            idx[j - 1], idx[j] = idx[j], idx[j - 1]
            j -= 1
    return np.array(idx, dtype=np.int64)


def sym_sort(x, axis=-1, **kw):
    i = sym_argsort(x, axis=axis)
    return np.take_along_axis(x, i, axis=axis) if _raw(x).ndim > 1 else x[i]


def sym_clip(x, a_min=None, a_max=None, **kw):
    a_min = kw.pop('min', a_min)
    a_max = kw.pop('max', a_max)
    r = x
    if a_min is not None:
        r = np.maximum(r, a_min)
    if a_max is not None:
        r = np.minimum(r, a_max)
    return r


def sym_nan_to_num(x, copy=True, nan=0.0, posinf=None, neginf=None):
    # exact arithmetic never produces nan/inf; a division by a possibly-zero term is a recorded
    # domain event instead
    return x


def sym_iscomplexobj(x):
    return np.dtype(_ld_of(x)).kind == 'c'


def sym_isreal(x):
    r = _pyf(lambda t: C(t).imag == 0, 1)(_raw(x))
    return W(r, bool)


def sym_real(x):
    return x.real if isinstance(x, SymArray) else np.real(x)


def sym_imag(x):
    return x.imag if isinstance(x, SymArray) else np.imag(x)


def sym_allclose(a, b, rtol=1e-5, atol=1e-8, **kw):
    """NumPy's definition, |a - b| <= atol + rtol * |b| for every entry; each undecided entry is a fork like any other comparison"""
    ra, rb = np.broadcast_arrays(np.asarray(_raw(a), dtype=object), np.asarray(_raw(b), dtype=object))
    for x, y in zip(ra.ravel(), rb.ravel()):
        x, y = C(x), C(y)
        if not bool(abs(x - y) <= atol + rtol * abs(y)):
            return False
    return True


def sym_isclose(a, b, rtol=1e-5, atol=1e-8, **kw):
    a, b = C(_raw(a).item()), C(_raw(b).item())
    return bool(abs(a - b) <= atol + rtol * abs(b))


def sym_diag(v, k=0):
    r = np.diag(_raw(v), k)
    ld = _ld_of(v)
    if r.size:
        r = _lift(r)
    return W(r, ld)


def sym_take_along_axis(arr, indices, axis=-1):
    return W(np.take_along_axis(_raw(arr), np.asarray(indices), axis), _ld_of(arr))


HANDLERS = {
    np.where: sym_where,
    np.linalg.norm: sym_norm,
    np.any: sym_any,
    np.all: sym_all,
    np.max: sym_max,
    np.amax: sym_max,
    np.min: sym_min,
    np.amin: sym_min,
    np.argsort: sym_argsort,
    np.sort: sym_sort,
    np.clip: sym_clip,
    np.nan_to_num: sym_nan_to_num,
    np.iscomplexobj: sym_iscomplexobj,
    np.isreal: sym_isreal,
    np.real: sym_real,
    np.imag: sym_imag,
    np.allclose: sym_allclose,
    np.isclose: sym_isclose,
    np.diag: sym_diag,
    np.take_along_axis: sym_take_along_axis,
}


def symvar_array(name, shape, ld='float64', shadow=None, positive=False, rng=None):
    """array of fresh input variables name_i_j (complex logical dtypes get name_i_j_re / _im)"""
    import random
    ld = np.dtype(ld)
    a = np.empty(shape, dtype=object)
    rng = rng or random.Random(hash(name) & 0xffff)
    for idx in np.ndindex(*shape) if shape != () else [()]:
        nm = name + "".join(f"_{i}" for i in idx)

        def sh(k):
            if shadow is not None:
                s = np.asarray(shadow)[idx]
                return (s.real if k == 0 else s.imag) if np.iscomplexobj(s) else (s if k == 0 else 0)
            from fractions import Fraction
            return Fraction(rng.randint(-9, 9) * 2 + 1, rng.choice([2, 3, 4, 5, 7]))

        if ld.kind == 'c':
            re = E.new_input(nm + "_re", sh(0), positive=positive)
            im = E.new_input(nm + "_im", sh(1))
            a[idx] = Sym(re.re, im.re)
        else:
            s0 = sh(0)
            if positive and s0 <= 0:
                s0 = abs(s0) + 1
            a[idx] = E.new_input(nm, s0, positive=positive)
    return SymArray(a, ld)

"""Exact stand-ins for LAPACK / scipy routines on SymArrays.

Unique-result routines (solve, inv, solve_triangular, lstsq on full rank, det) are computed exactly
(adjugate / determinant, so the only denominator is det A: no pivoting artefacts).  `lu` executes partial
pivoting on symbolic values with the pivot comparisons as path forks and returns scipy's (p, L, U)
convention.  `cholesky` is the textbook recursion (square roots become generators).  Routines whose
result is not unique as a function of the matrix (eigh, eig, svd) are served from a registry filled by
the harness (inverse parametrisation): the harness builds A *from* (w, V) and registers the pair."""
import numpy as np

from .array import W, SymArray, _lift, _raw, _real_dtype, lift
from .core import C, E, Inconclusive, Sym, uf_apply

_F64 = np.dtype('float64')


def _obj(x):
    if isinstance(x, SymArray):
        return x.raw
    x = np.asarray(x)
    if x.dtype != object:
        x = _lift(x.astype(object)) if x.size else x.astype(object)
    return x


def _ld(*xs):
    lds = []
    for x in xs:
        if isinstance(x, SymArray):
            lds.append(x._ld)
        elif isinstance(x, np.ndarray):
            lds.append(x.dtype)
    r = np.result_type(*lds) if lds else _F64
    return r if r.kind in 'fc' else _F64


def det_obj(A):
    """Laplace expansion with memoisation over column subsets (n <= 6)"""
    n = A.shape[0]
    if n == 0:
        return C(1)
    memo = {}

    def rec(r, cols):
        if r == n:
            return C(1)
        k = cols
        if k in memo:
            return memo[k]
        tot = C(0)
        sgn = 1
        for j in range(n):
            if not (cols >> j) & 1:
                a = C(A[r, j])
                if not a.is_zero():
                    sub = rec(r + 1, cols | (1 << j))
                    tot = tot + (a * sub if sgn > 0 else -(a * sub))
                sgn = -sgn
        memo[k] = tot
        return tot

    return rec(0, 0)


def adj_obj(A):
    n = A.shape[0]
    out = np.empty((n, n), dtype=object)
    for i in range(n):
        for j in range(n):
            rows = [r for r in range(n) if r != j]
            cols = [c for c in range(n) if c != i]
            m = det_obj(A[np.ix_(rows, cols)]) if n > 1 else C(1)
            out[i, j] = m if (i + j) % 2 == 0 else -m
    return out


def _batched(f, A, *rest):
    """apply f over leading batch dims of A (and of rest when they have them)"""
    if A.ndim == 2:
        return f(A, *rest)
    outs = []
    for i in range(A.shape[0]):
        outs.append(_batched(f, A[i], *[r[i] if (isinstance(r, np.ndarray) and r.ndim > A.ndim - 1 + (r.ndim - A.ndim)) else r
                                       for r in rest]))
    if isinstance(outs[0], tuple):
        return tuple(np.stack([o[k] for o in outs]) for k in range(len(outs[0])))
    return np.stack(outs)


def solve(A, B):
    ld = _ld(A, B)
    a, b = _obj(A), _obj(B)
    if a.ndim > 2:
        if b.ndim == a.ndim - 1:
            raise Inconclusive("batched solve with vector rhs")
        r = np.stack([_solve2(a[i], b[i] if b.ndim == a.ndim else b) for i in range(a.shape[0])]) if a.ndim == 3 else None
        if r is None:
            raise Inconclusive("solve with >1 batch dims")
        return W(r, ld)
    return W(_solve2(a, b), ld)


def _solve2(a, b):
    n = a.shape[0]
    assert a.shape == (n, n), a.shape
    d = det_obj(a)
    if d.is_zero():
        raise np.linalg.LinAlgError("Singular matrix")
    vec = b.ndim == 1
    bb = b.reshape(n, -1)
    adj = adj_obj(a)
    x = adj @ bb
    x = np.frompyfunc(lambda t: C(t) / d, 1, 1)(x) if x.size else x
    return x.reshape(-1) if vec else x


def inv(A):
    ld = _ld(A)
    a = _obj(A)
    if a.ndim > 2:
        return W(np.stack([_raw(inv(W(a[i], ld))) for i in range(a.shape[0])]), ld)
    n = a.shape[0]
    return W(_solve2(a, _obj(np.eye(n))), ld)


def solve_triangular(a, b, lower=False, **kw):
    if kw.get('trans', 0) not in (0, 'N') or kw.get('unit_diagonal', False):
        raise Inconclusive("solve_triangular options")
    ld = _ld(a, b)
    A, Bm = _obj(a), _obj(b)
    n = A.shape[0]
    vec = Bm.ndim == 1
    Bm = Bm.reshape(n, -1)
    X = np.empty(Bm.shape, dtype=object)
    order = range(n) if lower else range(n - 1, -1, -1)
    for i in order:
        ks = range(i) if lower else range(i + 1, n)
        for c in range(Bm.shape[1]):
            acc = C(Bm[i, c])
            for k in ks:
                acc = acc - C(A[i, k]) * X[k, c]
            X[i, c] = acc / C(A[i, i])
    return W(X.reshape(-1) if vec else X, ld)


def lstsq_solution(A, b):
    """minimum-norm least-squares solution for full-rank A (the harness only passes full rank)"""
    ld = _ld(A, b)
    a, bb = _obj(A), _obj(b)
    m, n = a.shape
    ah = np.frompyfunc(lambda t: C(t).conjugate(), 1, 1)(a.T)
    if m >= n:
        x = _solve2(ah @ a, ah @ bb)
    else:
        x = ah @ _solve2(a @ ah, bb)
    return W(x, ld)


def np_lstsq(A, b, rcond=None):
    x = lstsq_solution(A, b)
    return x, None, min(A.shape), None


def slogdet(A):
    ld = _ld(A)
    a = _obj(A)
    if a.ndim != 2:
        raise Inconclusive("batched slogdet")
    d = det_obj(a)
    mag = abs(d)
    sign = d / mag
    la = uf_apply('log', mag) if not (mag.is_const() and mag.re.cval() == 1) else C(0)
    return W(sign, ld), W(la, _real_dtype(ld))


def cholesky(A, **kw):
    if kw.get('upper', False):
        raise Inconclusive("cholesky upper")
    ld = _ld(A)
    a = _obj(A)
    n = a.shape[0]
    L = np.empty((n, n), dtype=object)
    for i in range(n):
        for j in range(n):
            L[i, j] = C(0)
    for j in range(n):
        s = C(a[j, j]).real
        for k in range(j):
            s = s - (L[j, k] * L[j, k].conjugate()).real
        if s.is_const() and s.re.cval() <= 0:
            raise np.linalg.LinAlgError("Matrix is not positive definite")
        if not s.is_const() and E.sign_of_rat(s.re) is None:
            # LAPACK raises when a pivot is not positive: explore both outcomes
            if not bool(s > 0):
                raise np.linalg.LinAlgError("Matrix is not positive definite")
        ljj = s.sqrt()
        L[j, j] = ljj
        for i in range(j + 1, n):
            t = C(a[i, j])
            for k in range(j):
                t = t - L[i, k] * L[j, k].conjugate()
            L[i, j] = t / ljj
    return W(L, ld)


def lu_pivoted(a):
    """scipy.linalg.lu(a, p_indices=True): returns p, L, U with a == L[p] @ U ... in scipy's convention
    (L @ U)[p] == a[...]: we follow scipy exactly: a = P L U with P = eye[:, p]... verified
    differentially against scipy in tests (see selftest)."""
    ld = _ld(a)
    A = _obj(a).copy()
    m, n = A.shape
    k = min(m, n)
    perm = list(range(m))
    for j in range(k):
        # pivot: row with largest |.| in column j among rows j.. (first maximal, like LAPACK idamax)
        best = j
        for i in range(j + 1, m):
            ai, ab = abs(C(A[i, j])), abs(C(A[best, j]))
            if bool(ai > ab):
                best = i
        if best != j:
            A[[j, best]] = A[[best, j]]
            perm[j], perm[best] = perm[best], perm[j]
        piv = C(A[j, j])
        if piv.is_zero():
            continue
        for i in range(j + 1, m):
            f = C(A[i, j]) / piv
            A[i, j] = f
            for c in range(j + 1, n):
                A[i, c] = C(A[i, c]) - f * C(A[j, c])
    L = np.empty((m, k), dtype=object)
    U = np.empty((k, n), dtype=object)
    for i in range(m):
        for j in range(k):
            L[i, j] = C(1) if i == j else (C(A[i, j]) if i > j else C(0))
    for i in range(k):
        for j in range(n):
            U[i, j] = C(A[i, j]) if j >= i else C(0)
    # rows of (L@U) are rows perm[i] of a:  (L@U)[i] = a[perm[i]]  => a = (L@U)[inv(perm)]
    # scipy's p_indices convention: a == (L @ U)[p]?  scipy returns p with  a = L[p] @ U  i.e.
    # a[i] = (L@U)[p[i]]  => p = inverse of perm
    p = np.empty(m, dtype=np.int32)
    for i, pi in enumerate(perm):
        p[pi] = i
    return p, W(L, ld), W(U, ld)


# ---- registry for non-unique decompositions (inverse parametrisation) -----------------------
KNOWN = {"eigh": [], "eig": [], "svd": []}


def clear_known():
    for v in KNOWN.values():
        v.clear()


def _same(a, b):
    a, b = _obj(a), _obj(b)
    if a.shape != b.shape:
        return False
    for x, y in zip(a.ravel(), b.ravel()):
        if not (C(x) - C(y)).is_zero():
            return False
    return True


def register(kind, A, result):
    KNOWN[kind].append((A, result))


def _lookup(kind, A):
    for B, res in KNOWN[kind]:
        if _same(A, B):
            return res
    return None


def _diag_like(a):
    n = a.shape[0]
    for i in range(n):
        for j in range(n):
            if i != j and not C(a[i, j]).is_zero():
                return False
    return True


def eigh(A, UPLO='L'):
    ld = _ld(A)
    a = _obj(A)
    if a.ndim == 3:
        ws, vs = zip(*[eigh(W(a[i], ld)) for i in range(a.shape[0])])
        return W(np.stack([_raw(w) for w in ws]), _real_dtype(ld)), W(np.stack([_raw(v) for v in vs]), ld)
    res = _lookup("eigh", a)
    if res is not None:
        w, V = res
        return W(_obj(w), _real_dtype(ld)), W(_obj(V), ld)
    n = a.shape[0]
    if n == 1:
        return W(np.array([C(a[0, 0]).real], dtype=object), _real_dtype(ld)), W(_obj(np.eye(1)), ld)
    if _diag_like(a):
        # eigenvalues ascending: sort with forks; eigenvectors are the permuted identity
        from .array import sym_argsort
        d = np.array([C(a[i, i]).real for i in range(n)], dtype=object)
        idx = sym_argsort(W(d, _real_dtype(ld)))
        V = _obj(np.eye(n))[:, idx]
        return W(d[idx], _real_dtype(ld)), W(V, ld)
    # zero padding: [[B, 0], [0, 0]] with B known -> eigenvalues of B and zeros (ascending: comparisons fork), eigenvectors blockdiag(V, I)
    for k in range(n - 1, 0, -1):
        if all(C(a[i, j]).is_zero() for i in range(n) for j in range(n) if i >= k or j >= k):
            sub = _lookup("eigh", a[:k, :k])
            if sub is not None:
                from .array import sym_argsort
                w, V = sub
                wz = np.array([C(x).real for x in _obj(w)] + [C(0)] * (n - k), dtype=object)
                Vz = _obj(np.eye(n)).copy()
                Vz[:k, :k] = _obj(V)
                idx = sym_argsort(W(wz, _real_dtype(ld)))
                return W(wz[idx], _real_dtype(ld)), W(Vz[:, idx], ld)
    raise Inconclusive("eigh of a symbolic matrix that is not in the harness' parametrised form")


def eig(A):
    ld = _ld(A)
    a = _obj(A)
    cld = np.result_type(ld, np.complex64)
    if a.ndim == 3:
        ws, vs = zip(*[eig(W(a[i], ld)) for i in range(a.shape[0])])
        return W(np.stack([_raw(w) for w in ws]), cld), W(np.stack([_raw(v) for v in vs]), cld)
    res = _lookup("eig", a)
    if res is not None:
        w, V = res
        return W(_obj(w), cld), W(_obj(V), cld)
    n = a.shape[0]
    if n == 1:
        return W(np.array([C(a[0, 0])], dtype=object), cld), W(_obj(np.eye(1)), cld)
    if _diag_like(a):
        d = np.array([C(a[i, i]) for i in range(n)], dtype=object)
        return W(d, cld), W(_obj(np.eye(n)), cld)
    # zero padding: [[B, 0], [0, 0]] with B known  ->  eigenvalues of B and zeros, eigenvectors blockdiag(P, I)
    for k in range(n - 1, 0, -1):
        if all(C(a[i, j]).is_zero() for i in range(n) for j in range(n) if i >= k or j >= k):
            sub = _lookup("eig", a[:k, :k])
            if sub is None and _diag_like(a[:k, :k]):
                sub = (np.array([C(a[i, i]) for i in range(k)], dtype=object), _obj(np.eye(k)))
            if sub is not None:
                w, V = sub
                wz = np.array(list(_obj(w)) + [C(0)] * (n - k), dtype=object)
                Vz = _obj(np.eye(n)).copy()
                Vz[:k, :k] = _obj(V)
                return W(wz, cld), W(Vz, cld)
    raise Inconclusive("eig of a symbolic matrix that is not in the harness' parametrised form")


def svd(A, full_matrices=True, compute_uv=True, **kw):
    ld = _ld(A)
    a = _obj(A)
    res = _lookup("svd", a)
    if res is None:
        raise Inconclusive("svd of a symbolic matrix that is not in the harness' parametrised form")
    U, S, Vh = res[bool(full_matrices)]
    return W(_obj(U), ld), W(_obj(S), _real_dtype(ld)), W(_obj(Vh), ld)


def block_diag(*arrs):
    if not any(isinstance(a, SymArray) for a in arrs):
        from scipy.linalg import block_diag as bd
        return bd(*arrs)
    ld = _ld(*arrs)
    mats = [_obj(np.atleast_2d(a) if not isinstance(a, SymArray) else (a if a.ndim == 2 else a.reshape(1, -1))) for a in arrs]
    R = sum(m.shape[0] for m in mats)
    Cn = sum(m.shape[1] for m in mats)
    out = np.empty((R, Cn), dtype=object)
    for i in range(R):
        for j in range(Cn):
            out[i, j] = C(0)
    r = c = 0
    for m in mats:
        out[r:r + m.shape[0], c:c + m.shape[1]] = m
        r += m.shape[0]
        c += m.shape[1]
    return W(out, ld)


def dft_matrix(n, inverse=False):
    """exact unitary DFT matrix for n in {1,2,4}: entries in Q(i) / sqrt(n)"""
    if n not in (1, 2, 4):
        raise Inconclusive(f"FFT of size {n} (only 1, 2, 4 are modelled exactly)")
    units = [C(1), C(-1j), C(-1), C(1j)]
    step = 4 // n
    M = np.empty((n, n), dtype=object)
    s = C(n).sqrt()
    for j in range(n):
        for k in range(n):
            u = units[(j * k * step) % 4]
            if inverse:
                u = u.conjugate()
            M[j, k] = u / s
    return M


def fft(x, n=None, axis=-1, norm=None, inverse=False):
    if norm != 'ortho' or n is not None:
        raise Inconclusive("fft only modelled for norm='ortho'")
    ld = np.result_type(_ld(x), np.complex64)
    v = _obj(x)
    v = np.moveaxis(v, axis, 0)
    M = dft_matrix(v.shape[0], inverse)
    r = np.tensordot(M, v, axes=(1, 0))
    return W(np.moveaxis(r, 0, axis), ld)


def ifft(x, n=None, axis=-1, norm=None):
    return fft(x, n=n, axis=axis, norm=norm, inverse=True)


def qr(a, mode='reduced'):
    raise Inconclusive("qr of symbolic input is not modelled")

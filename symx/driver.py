"""./check <ID> [--tier quick|thorough] [--replay path] [--jobs N] [--case regex] [--list]

exit 0: every obligation explored was decided `holds` (known findings are printed, not counted)
exit 1: a violation that is not a listed known finding, replayed on the real float code
exit 2: inconclusive (solver unknown / unmodelled operation / path budget) inside the claim
exit 3: harness error (counterexample does not reproduce, translator-validation mismatch, twin failed)"""
import argparse
import hashlib
import importlib
import json
import multiprocessing as mp
import os
import re
import subprocess
import sys
import time

VERIF = os.path.dirname(os.path.dirname(os.path.abspath(__file__)))
CASES = []
OPTS = {}


def _jsonable(x):
    return json.loads(json.dumps(x))


def _init_worker():
    import warnings
    warnings.filterwarnings("ignore")
    import logging
    logging.disable(logging.WARNING)
    from . import shim
    shim.install()


def _work(i):
    from . import harness
    cid, func, kwargs, copts = CASES[i]
    opts = dict(OPTS)
    opts.update(copts or {})
    try:
        res = harness.run_case(func, kwargs, opts)
    except BaseException as e:  # noqa
        res = dict(paths=[], complete=False, stats={}, fns=[], error=f"{type(e).__name__}: {e}", smt={}, wall=0.0)
    res["case"] = cid
    return i, res


def _linecov_start():
    """dev aid (SYMX_LINECOV=<dir>): record which lines of /repo/cola a case executes (sys.monitoring), one json per process"""
    d = os.environ.get("SYMX_LINECOV")
    if not d:
        return None
    mon = sys.monitoring
    tool = mon.COVERAGE_ID
    hit = set()
    try:
        mon.use_tool_id(tool, "symx-linecov")
    except ValueError:
        pass

    def on_line(code, line):
        fn = code.co_filename
        if "/cola/" in fn and "site-packages" not in fn:
            hit.add((fn, line))
        return mon.DISABLE

    mon.register_callback(tool, mon.events.LINE, on_line)
    mon.set_events(tool, mon.events.LINE)
    return d, hit


def _linecov_stop(st, tag):
    if not st:
        return
    d, hit = st
    os.makedirs(d, exist_ok=True)
    with open(os.path.join(d, f"{tag}-{os.getpid()}.json"), "w") as f:
        json.dump(sorted(hit), f)


def _child(i, conn):
    st = _linecov_start()
    try:
        res = _work(i)[1]
    except BaseException as e:  # noqa
        res = dict(paths=[], complete=False, stats={}, fns=[], error=f"{type(e).__name__}: {e}", smt={}, wall=0.0, case=CASES[i][0])
    _linecov_stop(st, "case")
    try:
        conn.send(res)
    except BaseException as e:  # noqa
        conn.send(dict(paths=[], complete=False, stats={}, fns=[], error=f"result not transferable: {type(e).__name__}: {e}", smt={}, wall=0.0,
                       case=CASES[i][0]))
    conn.close()


def run_cases(jobs, hard_timeout_s):
    """one forked process per case (fresh solver state, hard wall-clock limit); a process that dies without a result (a native crash in
    the solver library) is retried once and otherwise reported as an error of that case -- never silently dropped, never a hang"""
    from multiprocessing.connection import wait
    ctx = mp.get_context("fork")
    _init_worker()
    results = [None] * len(CASES)
    todo = [(i, 0) for i in range(len(CASES))][::-1]
    running = {}  # conn -> (proc, i, attempt, t0)

    def fail(i, msg):
        results[i] = dict(paths=[], complete=False, stats={}, fns=[], error=msg, smt={}, wall=0.0, case=CASES[i][0])

    while todo or running:
        while todo and len(running) < jobs:
            i, attempt = todo.pop()
            r, w = ctx.Pipe(duplex=False)
            p = ctx.Process(target=_child, args=(i, w), daemon=True)
            p.start()
            w.close()
            running[r] = (p, i, attempt, time.time())
        for r in wait(list(running), timeout=0.5):
            p, i, attempt, t0 = running.pop(r)
            try:
                results[i] = r.recv()
            except (EOFError, OSError):
                p.join(5)
                if attempt == 0:
                    todo.append((i, 1))
                else:
                    fail(i, f"worker process died twice without a result (exit code {p.exitcode})")
            r.close()
            p.join(5)
        now = time.time()
        for r, (p, i, attempt, t0) in list(running.items()):
            if now - t0 > hard_timeout_s:
                p.kill()
                p.join(5)
                running.pop(r)
                r.close()
                fail(i, "timeout")
    return results


def load_cases(mod, tier, seed):
    out = []
    for c in mod.cases(tier, seed):
        cid, func, kwargs = c[0], c[1], _jsonable(c[2])
        copts = c[3] if len(c) > 3 else {}
        out.append((cid, func, kwargs, copts))
    ids = [c[0] for c in out]
    assert len(set(ids)) == len(ids), "duplicate case ids"
    return out


def load_known(prop):
    p = os.path.join(VERIF, "known_findings.json")
    if not os.path.exists(p):
        return []
    with open(p) as f:
        d = json.load(f)
    return [k for k in d.get("findings", []) if k["property"] == prop]


def match_known(known, cid, label):
    for k in known:
        if re.fullmatch(k["case"], cid) and re.fullmatch(k["label"], label):
            return k
    return None


def do_replay(prop, mod, path):
    """concrete replay in this (fresh) interpreter: no symbolic shim, only the functional additions"""
    import warnings
    warnings.filterwarnings("ignore")
    import logging
    logging.disable(logging.WARNING)
    from cola.backends import np_fns
    from . import harness, shim
    shim.functional_additions(np_fns)
    with open(path) as f:
        r = json.load(f)
    func = getattr(mod, r["func"])
    T, err = harness.run_concrete(func, r["kwargs"], r["values"])
    want = r.get("label")
    bad = [o for o in T.obligations if o["status"] == "violated"]
    for o in T.obligations:
        print(f"  {o['status']:15s} {o['label']}  {o['detail'][:200]}")
    known = load_known(prop)
    cid = r.get("case", "")
    hit = [o for o in bad if want is None or o["label"] == want or o["label"] == "!exception"]
    if not hit:
        # the real float code may break the property at this input under a different observable than the symbolic run
        # predicted (e.g. nan instead of an exception): any violated obligation that is not a listed known finding counts
        hit = [o for o in bad if match_known(known, cid, o["label"]) is None]
    if hit:
        print(f"VIOLATION property={prop} replay={path}")
        print(f"  violated on the real float code: {[o['label'] for o in hit][:6]}")
        return 1
    print(f"replay: property={prop} obligation {want!r} holds on the real float code at this input")
    return 0


def confirm(prop, cid, func, kwargs, values, label):
    """write a replay file and run it in a fresh interpreter; True iff the violation reproduces"""
    os.makedirs(os.path.join(VERIF, "replays"), exist_ok=True)
    blob = dict(property=prop, case=cid, func=func.__name__, kwargs=kwargs, values=values, label=label)
    h = hashlib.sha256(json.dumps(blob, sort_keys=True).encode()).hexdigest()[:12]
    path = os.path.join(VERIF, "replays", f"{prop}-{h}.json")
    with open(path, "w") as f:
        json.dump(blob, f, indent=1)
    p = subprocess.run([sys.executable, "-m", "symx.driver", prop, "--replay", path], cwd=VERIF, capture_output=True, text=True,
                       timeout=600)
    return p.returncode == 1 and "VIOLATION" in p.stdout, path, p.stdout[-1500:] + p.stderr[-500:]


def main():
    ap = argparse.ArgumentParser()
    ap.add_argument("prop")
    ap.add_argument("--tier", default=os.environ.get("VERIF_TIER", "quick"))
    ap.add_argument("--replay")
    ap.add_argument("--jobs", type=int, default=int(os.environ.get("VERIF_JOBS", "0")) or min(16, os.cpu_count() or 4))
    ap.add_argument("--case")
    ap.add_argument("--list", action="store_true")
    ap.add_argument("--no-evidence", action="store_true")
    ap.add_argument("-v", action="store_true")
    a = ap.parse_args()
    prop = a.prop.upper()
    tier = a.tier if a.tier in ("quick", "thorough") else "quick"
    seed = int(os.environ.get("VERIF_SEED", "0") or 0)
    sys.path.insert(0, VERIF)
    mod = importlib.import_module(f"checks.{prop.lower()}")
    if a.replay:
        sys.exit(do_replay(prop, mod, a.replay))
    t0 = time.time()
    global CASES, OPTS
    CASES = load_cases(mod, tier, seed)
    if a.case:
        CASES = [c for c in CASES if re.search(a.case, c[0])]
    if a.list:
        for c in CASES:
            print(c[0])
        return
    OPTS = dict(getattr(mod, "OPTS", {}).get(tier, {}))
    if tier == "thorough" and "SYMX_XCHECK_EVERY" not in os.environ:
        from . import smt
        smt.XCHECK_EVERY = 40  # every 40th decided query is re-decided by cvc5 (a disagreement is a harness error)
    known = load_known(prop)
    results = [None] * len(CASES)
    if a.jobs <= 1 or len(CASES) <= 1:
        _init_worker()
        for i in range(len(CASES)):
            results[i] = _work(i)[1]
    else:
        results = run_cases(a.jobs, max([int(OPTS.get("case_budget_s", 300))] + [int((c[3] or {}).get("case_budget_s", 0)) for c in CASES]) + 240)
    # ---- aggregate ---------------------------------------------------------------------------
    agg = dict(cases=len(CASES), paths=0, obligations=0, trivial=0, solver=0, concrete=0, violated=0, unknown=0, forks=0,
               flips=0, complete_cases=0, queries=0, solver_s=0.0, tv_runs=0)
    by_kind = {}
    fns = set()
    violations = []  # (cid, label, path dict, obligation)
    inconclusive = []
    harness_errors = []
    samples = []
    nontrivial_keys = set()
    for (cid, func, kwargs, copts), res in zip(CASES, results):
        if res.get("error"):
            (inconclusive if res["error"] == "timeout" else harness_errors).append((cid, "case", res["error"]))
        st = res.get("stats", {})
        agg["paths"] += st.get("paths", 0)
        agg["forks"] += st.get("forks", 0)
        agg["flips"] += st.get("flips", 0)
        if res.get("complete"):
            agg["complete_cases"] += 1
        elif not res.get("error") and not copts.get("partial_ok") and not OPTS.get("partial_ok"):
            inconclusive.append((cid, "coverage", f"path coverage incomplete: {st}"))
        sm = res.get("smt", {})
        agg["queries"] += sm.get("queries", 0)
        for kx in ("xcheck", "xcheck_unknown", "xcheck_disagree"):
            agg[kx] = agg.get(kx, 0) + sm.get(kx, 0)
        agg["solver_s"] += sm.get("time", 0.0)
        if sm.get("xcheck_disagree"):
            harness_errors.append((cid, "xcheck", "z3 / cvc5 disagree"))
        for k, v in sm.get("by_kind", {}).items():
            b = by_kind.setdefault(k, {"n": 0, "sat": 0, "unsat": 0, "unknown": 0, "time": 0.0})
            for kk in b:
                b[kk] += v.get(kk, 0)
        fns.update(res.get("fns", []))
        tv = res.get("tv", {})
        agg["tv_runs"] += tv.get("runs", 0)
        for m in tv.get("mismatches", []):
            # the real float code violates an obligation at a path seed although the exact-arithmetic run proves it: either an
            # encoding error or a rounding-level defect of the real code; it is replayed like a solver counterexample and
            # reported as a violation only if it reproduces in a fresh interpreter
            violations.append((cid, m["label"], dict(values=m["values"], sig=[], obligations=[]),
                               dict(label=m["label"], status="violated", model=m["values"],
                                    detail=f"float run at a path seed: {m['conc']} (exact-arithmetic run: {m['sym']})")))
        for pi, p in enumerate(res.get("paths", [])):
            if p["status"] == "inconclusive":
                inconclusive.append((cid, "path", p["detail"]))
            elif p["status"] == "exception":
                violations.append((cid, "!exception", p, dict(label="!exception", status="violated", detail=p["detail"])))
            for o in p["obligations"]:
                agg["obligations"] += 1
                s = o["status"]
                if s == "holds-trivial":
                    agg["trivial"] += 1
                    if p["sig"]:
                        nontrivial_keys.add((cid, o["label"], tuple(p["sig"])))
                elif s == "holds-solver":
                    agg["solver"] += 1
                    nontrivial_keys.add((cid, o["label"], tuple(p["sig"])))
                elif s == "holds-concrete":
                    agg["concrete"] += 1
                elif s == "violated":
                    agg["violated"] += 1
                    violations.append((cid, o["label"], p, o))
                elif s == "unknown":
                    agg["unknown"] += 1
                    inconclusive.append((cid, o["label"], o["detail"]))
            if len(samples) < 6 and p["obligations"]:
                samples.append(dict(case=cid, kwargs=kwargs, path_condition=p["sig"][:4], inputs=p["n_inputs"],
                                    obligations=[(o["label"], o["status"]) for o in p["obligations"][:6]]))
    # ---- violations: known findings, replay ----------------------------------------------------
    exit_code = 0
    printed_known = set()
    new_violations = []
    seen_v = set()
    for cid, label, p, o in violations:
        k = match_known(known, cid, label)
        if k is not None:
            if k["id"] not in printed_known:
                printed_known.add(k["id"])
                print(f"KNOWN-FINDING: property={prop} {k['id']}: {k['what']}")
            continue
        if (cid, label) in seen_v:
            continue
        seen_v.add((cid, label))
        new_violations.append((cid, label, p, o))
    reported = 0
    for cid, label, p, o in new_violations[:int(os.environ.get("SYMX_MAX_REPORT", "12"))]:
        case = next(c for c in CASES if c[0] == cid)
        values = o.get("model") or p["values"]
        vals = dict(p["values"])
        vals.update(values)
        ok, path, out = confirm(prop, cid, case[1], case[2], vals, label)
        if ok:
            print(f"VIOLATION property={prop} replay={path}")
            print(f"  case={cid} obligation={label}: {o['detail'][:300]}")
            reported += 1
            exit_code = 1
        else:
            harness_errors.append((cid, label, f"counterexample did not reproduce on the real float code: {o['detail'][:200]} :: {out[-600:]}"))
    if len(new_violations) > reported and exit_code == 1:
        print(f"  ... {len(new_violations)} violated (case, obligation) pairs in total")
    if exit_code == 0 and harness_errors:
        exit_code = 3
    if exit_code == 0 and inconclusive:
        exit_code = 2
    for cid, label, msg in harness_errors[:20]:
        print(f"HARNESS-ERROR case={cid} obligation={label}: {msg[:1500]}", file=sys.stderr)
    for cid, label, msg in inconclusive[:20]:
        print(f"INCONCLUSIVE case={cid} obligation={label}: {msg[:600]}", file=sys.stderr)
    wall = time.time() - t0
    # ---- evidence ----------------------------------------------------------------------------------
    ev = dict(
        property_id=prop, tier=tier, seed=seed, level="model_checking",
        coverage=dict(
            evaluations=agg["obligations"],
            distinct_nontrivial=len(nontrivial_keys),
            rule=("one evaluation = one obligation (equality / inequality / structural check) decided on one explored path of one "
                  "case; a case is one configuration of the bound (operator tree, shapes, dtypes, algorithm, iteration cap) run "
                  "with symbolic payloads through the real cola code. Non-trivial & distinct = distinct (case, obligation, path "
                  "condition) whose verdict needed an SMT query or was established under a non-empty path condition; obligations "
                  "whose residual normalised to zero on a branch-free path and structural (concrete) checks are not counted."),
            samples=samples,
            states=max(agg["paths"], 1), transitions=max(agg["forks"] + agg["paths"], 1),
            traces_validated_against_impl=agg["tv_runs"],
            cases=agg["cases"], cases_with_complete_path_coverage=agg["complete_cases"], paths=agg["paths"],
            obligations=agg["obligations"], discharged=agg["trivial"] + agg["solver"] + agg["concrete"],
            obligation_classes=dict(total=agg["obligations"], normalised_trivial=agg["trivial"], decided_by_solver=agg["solver"],
                             structural=agg["concrete"], violated=agg["violated"], unknown=agg["unknown"]),
            solver=dict(queries=agg["queries"], seconds=round(agg["solver_s"], 3), by_kind=by_kind, engine="z3 " + _z3v(),
                        cross_checked_with_cvc5=dict(sampled=agg.get("xcheck", 0), agree=agg.get("xcheck", 0) - agg.get("xcheck_unknown", 0) - agg.get("xcheck_disagree", 0),
                                                     cvc5_unknown=agg.get("xcheck_unknown", 0), disagree=agg.get("xcheck_disagree", 0))),
            functions_executed_symbolically=sorted(fns),
            bounds=_bounds(mod, tier),
            known_findings_printed=sorted(printed_known),
            inconclusive=[f"{c}/{l}: {m[:200]}" for c, l, m in inconclusive[:20]],
            harness_errors=[f"{c}/{l}: {m[:200]}" for c, l, m in harness_errors[:20]],
            exhaustive=False,
        ),
        assumptions=list(getattr(mod, "ASSUMPTIONS", [])) + COMMON_ASSUMPTIONS,
        wall_s=round(wall, 2), violations=reported)
    if not a.no_evidence and not a.case:
        os.makedirs(os.path.join(VERIF, "evidence"), exist_ok=True)
        with open(os.path.join(VERIF, "evidence", f"{prop}.json"), "w") as f:
            json.dump(ev, f, indent=1, default=str)
    print(f"{prop} {tier}: cases={agg['cases']} paths={agg['paths']} obligations={agg['obligations']} "
          f"(trivial={agg['trivial']} solver={agg['solver']} structural={agg['concrete']} violated={agg['violated']} "
          f"unknown={agg['unknown']}) queries={agg['queries']} solver_s={agg['solver_s']:.1f} known={len(printed_known)} "
          f"wall={wall:.1f}s exit={exit_code}")
    sys.exit(exit_code)


COMMON_ASSUMPTIONS = [
    "exact real/complex arithmetic: floating-point rounding, overflow and conditioning are not modelled",
    "NumPy backend only (jax/torch are not installed); autodiff rules are not executed",
    "trusted: CPython, NumPy shape/indexing/broadcast semantics on object arrays, z3, the term layer symx/terms.py, the "
    "stubs in symx/shim.py and symx/lapack.py (exact stand-ins for LAPACK/scipy/FFT; linear_transpose and vmap by definition)",
    "rational-function identities are decided on the set where the denominators met during execution are non-zero",
]


def _bounds(mod, tier):
    b = getattr(mod, "BOUNDS", {})
    if not isinstance(b, dict):
        return str(b)
    if tier in b:
        out = {tier: b[tier]}
        out.update({k: v for k, v in b.items() if k not in ("quick", "thorough")})
        return out
    return b


def _z3v():
    try:
        import z3
        return z3.get_version_string()
    except Exception:
        return "?"


if __name__ == "__main__":
    main()

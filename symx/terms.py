"""Exact term layer: sparse multivariate polynomials over Q (Poly) and rational functions with a
factored denominator (Rat).  Algebraic generators g with a rewrite rule g^2 -> p (square roots) are
reduced inside Poly.mul.  This is the executor's expression simplifier (cf. KLEE's rewriter); what it
cannot decide syntactically is handed to the SMT solver as a polynomial residual.

Nothing here knows about z3 or numpy."""
from fractions import Fraction

VARS = []        # index -> name
VIDX = {}        # name -> index
RULES = {}       # var index -> Poly p, meaning var^2 == p


def reset():
    VARS.clear()
    VIDX.clear()
    RULES.clear()


def vidx(name):
    i = VIDX.get(name)
    if i is None:
        i = VIDX[name] = len(VARS)
        VARS.append(name)
    return i


def mmul(m1, m2):
    if not m1:
        return m2
    if not m2:
        return m1
    d = dict(m1)
    for v, e in m2:
        d[v] = d.get(v, 0) + e
    return tuple(sorted(d.items()))


def mdiv(m1, m2):
    d = dict(m1)
    for v, e in m2:
        c = d.get(v, 0)
        if c < e:
            return None
        if c == e:
            del d[v]
        else:
            d[v] = c - e
    return tuple(sorted(d.items()))


def _mkey(m):
    return tuple((-v, e) for v, e in m)


class Poly:
    __slots__ = ("t", "_k", "_h")

    def __init__(s, t):
        s.t = t
        s._k = None
        s._h = None

    @staticmethod
    def const(c):
        c = Fraction(c)
        return Poly({(): c} if c else {})

    @staticmethod
    def var(name):
        return Poly({((vidx(name), 1), ): Fraction(1)})

    @staticmethod
    def varidx(i):
        return Poly({((i, 1), ): Fraction(1)})

    def is_zero(s):
        return not s.t

    def is_const(s):
        return not s.t or (len(s.t) == 1 and () in s.t)

    def cval(s):
        return s.t.get((), Fraction(0))

    def key(s):
        if s._k is None:
            s._k = tuple(sorted(s.t.items()))
        return s._k

    def __eq__(a, b):
        return a.t == b.t

    def __hash__(s):
        if s._h is None:
            s._h = hash(s.key())
        return s._h

    def __add__(a, b):
        if not a.t:
            return b
        if not b.t:
            return a
        if len(a.t) < len(b.t):
            a, b = b, a
        t = dict(a.t)
        for m, c in b.t.items():
            v = t.get(m)
            if v is None:
                t[m] = c
            else:
                v = v + c
                if v:
                    t[m] = v
                else:
                    del t[m]
        return Poly(t)

    def __neg__(a):
        return Poly({m: -c for m, c in a.t.items()})

    def __sub__(a, b):
        return a + (-b)

    def scale(a, c):
        if not c:
            return Poly({})
        if c == 1:
            return a
        return Poly({m: v * c for m, v in a.t.items()})

    def __mul__(a, b):
        if not a.t or not b.t:
            return Poly({})
        if len(a.t) == 1 and () in a.t:
            return b.scale(a.t[()])
        if len(b.t) == 1 and () in b.t:
            return a.scale(b.t[()])
        t = {}
        need = False
        rules = RULES
        for m1, c1 in a.t.items():
            for m2, c2 in b.t.items():
                m = mmul(m1, m2)
                if rules and not need:
                    for v, e in m:
                        if e >= 2 and v in rules:
                            need = True
                            break
                v = t.get(m)
                if v is None:
                    t[m] = c1 * c2
                else:
                    v = v + c1 * c2
                    if v:
                        t[m] = v
                    else:
                        del t[m]
        p = Poly(t)
        return p.reduce() if need else p

    def reduce(s):
        """apply g^2 -> p rules until no generator occurs with exponent >= 2"""
        out = Poly({})
        for m, c in s.t.items():
            term = Poly({(): c})
            rest = []
            for v, e in m:
                if e >= 2 and v in RULES:
                    q, r = divmod(e, 2)
                    pw = RULES[v]
                    for _ in range(q):
                        term = term * pw
                    if r:
                        rest.append((v, 1))
                else:
                    rest.append((v, e))
            if rest:
                term = term * Poly({tuple(rest): Fraction(1)})
            out = out + term
        return out

    def __pow__(a, k):
        r = ONE
        for _ in range(k):
            r = r * a
        return r

    def lt(s):
        m = max(s.t, key=_mkey)
        return m, s.t[m]

    def divexact(a, b):
        """a / b if b divides a exactly (as polynomials), else None"""
        if not a.t:
            return a
        if b.is_const():
            return a.scale(1 / b.cval())
        if len(b.t) == 1:
            (mb, cb), = b.t.items()
            t = {}
            for m, c in a.t.items():
                q = mdiv(m, mb)
                if q is None:
                    return None
                t[q] = c / cb
            return Poly(t)
        if len(b.t) > len(a.t) and not RULES:
            return None
        q = Poly({})
        r = a
        mb, cb = b.lt()
        steps = 0
        while r.t:
            mr, cr = r.lt()
            d = mdiv(mr, mb)
            if d is None:
                return None
            term = Poly({d: cr / cb})
            q = q + term
            r = r - term * b
            steps += 1
            if steps > 20000:
                return None
        return q

    def vars(s):
        return {v for m in s.t for v, _ in m}

    def degree_in(s, v):
        d = 0
        for m in s.t:
            for w, e in m:
                if w == v and e > d:
                    d = e
        return d

    def subs_float(s, val):
        tot = 0.0
        for m, c in s.t.items():
            t = float(c)
            for v, e in m:
                t *= val[v]**e
            tot += t
        return tot

    def subs_exact(s, val):
        """val: var index -> Fraction ; missing variables are an error"""
        tot = Fraction(0)
        for m, c in s.t.items():
            t = c
            for v, e in m:
                t *= val[v]**e
            tot += t
        return tot

    def __repr__(s):
        if not s.t:
            return "0"
        out = []
        for m, c in sorted(s.t.items()):
            if not m:
                out.append(str(c))
            else:
                mono = "*".join(VARS[v] + ("^%d" % e if e > 1 else "") for v, e in m)
                out.append(mono if c == 1 else f"{c}*{mono}")
        return " + ".join(out)


ONE = Poly.const(1)
ZEROP = Poly({})


def _msqrt_rule_den(n, d):
    """apply sqrt rules to denominator factors that are a bare generator g with exponent >= 2:
    1/g^2 -> 1/p"""
    for f in list(d):
        if len(f.t) == 1:
            (m, c), = f.t.items()
            if len(m) == 1 and m[0][1] == 1 and m[0][0] in RULES and d[f] >= 2:
                k = d[f]
                q, r = divmod(k, 2)
                p = RULES[m[0][0]]
                if r:
                    d[f] = r
                else:
                    del d[f]
                n = n.scale(1 / c**(2 * q))
                if p.is_const():
                    n = n.scale(1 / p.cval()**q)
                else:
                    mm, cc = p.lt()
                    n = n.scale(1 / cc**q)
                    p1 = p.scale(1 / cc)
                    # split monomial content of p1 into single-variable factors
                    for fac, mult in _factor_content(p1):
                        d[fac] = d.get(fac, 0) + mult * q
    return n, d


def _factor_content(p):
    """p (lt coeff 1) -> list of (factor, multiplicity): monomial content as single variables, then the
    primitive rest"""
    out = []
    g = None
    for mm in p.t:
        dd = dict(mm)
        g = dd if g is None else {v: min(e, dd.get(v, 0)) for v, e in g.items() if dd.get(v, 0) > 0}
        if not g:
            break
    rest = p
    if g:
        gm = tuple(sorted(g.items()))
        rest = p.divexact(Poly({gm: Fraction(1)}))
        for v, e in g.items():
            out.append((Poly.varidx(v), e))
    if not rest.is_const():
        out.append((rest, 1))
    else:
        assert rest.cval() == 1, rest
    return out


class Rat:
    """num / prod(f^k for f, k in d.items()); every denominator factor is a non-constant Poly with
    leading coefficient 1.  Equality is decided on the numerator of the difference, so the
    representation need not be canonical."""
    __slots__ = ("n", "d")

    def __init__(s, n, d=None):
        s.n = n
        s.d = d or {}

    @staticmethod
    def const(c):
        return Rat(Poly.const(c))

    @staticmethod
    def var(name):
        return Rat(Poly.var(name))

    def is_zero(s):
        return s.n.is_zero()

    def is_const(s):
        return not s.d and s.n.is_const()

    def is_poly(s):
        return not s.d

    def cval(s):
        return s.n.cval()

    def denpoly(s):
        p = ONE
        for f, k in s.d.items():
            for _ in range(k):
                p = p * f
        return p

    @staticmethod
    def make(n, d):
        if n.is_zero():
            return Rat(ZEROP)
        d = dict(d)
        if RULES:
            n, d = _msqrt_rule_den(n, d)
        for f in list(d):
            while d.get(f, 0) > 0:
                q = n.divexact(f)
                if q is None:
                    break
                n = q
                d[f] -= 1
            if d.get(f) == 0:
                del d[f]
        return Rat(n, d)

    def __add__(a, b):
        if a.n.is_zero():
            return b
        if b.n.is_zero():
            return a
        if not a.d and not b.d:
            return Rat(a.n + b.n)
        if a.d == b.d:
            return Rat.make(a.n + b.n, a.d)
        L = dict(a.d)
        for f, k in b.d.items():
            if L.get(f, 0) < k:
                L[f] = k
        na = a.n
        nb = b.n
        for f, k in L.items():
            for _ in range(k - a.d.get(f, 0)):
                na = na * f
            for _ in range(k - b.d.get(f, 0)):
                nb = nb * f
        return Rat.make(na + nb, L)

    def __neg__(a):
        return Rat(-a.n, a.d)

    def __sub__(a, b):
        return a + (-b)

    def __mul__(a, b):
        if a.n.is_zero() or b.n.is_zero():
            return Rat(ZEROP)
        if not a.d and not b.d:
            return Rat(a.n * b.n)
        d = dict(a.d)
        for f, k in b.d.items():
            d[f] = d.get(f, 0) + k
        na, nb = a.n, b.n
        for f in list(d):
            while d.get(f, 0) > 0:
                q = na.divexact(f)
                if q is not None:
                    na = q
                    d[f] -= 1
                    continue
                q = nb.divexact(f)
                if q is not None:
                    nb = q
                    d[f] -= 1
                    continue
                break
            if d.get(f) == 0:
                del d[f]
        n = na * nb
        if RULES and d:
            return Rat.make(n, d)
        return Rat(n, d)

    def inv(a):
        if a.n.is_zero():
            raise ZeroDivisionError("division by exact zero")
        n = a.denpoly()
        num = a.n
        if num.is_const():
            return Rat(n.scale(1 / num.cval()))
        m, c = num.lt()
        num1 = num.scale(1 / c)
        n = n.scale(1 / c)
        d = {}
        for fac, mult in _factor_content(num1):
            d[fac] = d.get(fac, 0) + mult
        return Rat.make(n, d)

    def __truediv__(a, b):
        return a * b.inv()

    def __eq__(a, b):
        return (a - b).is_zero()

    def __hash__(s):
        return hash((s.n, tuple(sorted((f.key(), k) for f, k in s.d.items()))))

    def vars(s):
        out = s.n.vars()
        for f in s.d:
            out |= f.vars()
        return out

    def subs_float(s, val):
        d = 1.0
        for f, k in s.d.items():
            d *= f.subs_float(val)**k
        n = s.n.subs_float(val)
        if d == 0:
            return float('nan')
        return n / d

    def subs_exact(s, val):
        d = Fraction(1)
        for f, k in s.d.items():
            d *= f.subs_exact(val)**k
        return s.n.subs_exact(val) / d

    def __repr__(s):
        if not s.d:
            return f"({s.n})"
        return f"({s.n})/" + "*".join(f"({f})^{k}" for f, k in s.d.items())


R0 = Rat.const(0)
R1 = Rat.const(1)


def selftest(seed=0, rounds=200):
    """random rational substitution: (a op b)(x) == a(x) op b(x)"""
    import random
    rnd = random.Random(seed)
    names = ["_st_a", "_st_b", "_st_c"]
    xs = [Rat.var(n) for n in names]

    def rand_rat(depth):
        if depth == 0:
            return rnd.choice(xs + [Rat.const(rnd.randint(-3, 3))])
        a, b = rand_rat(depth - 1), rand_rat(depth - 1)
        op = rnd.choice("+-*/")
        if op == "+":
            return a + b
        if op == "-":
            return a - b
        if op == "*":
            return a * b
        if b.is_zero():
            return a
        return a / b

    bad = 0
    for _ in range(rounds):
        a, b = rand_rat(2), rand_rat(2)
        val = {vidx(n): Fraction(rnd.randint(1, 97), rnd.randint(1, 89)) for n in names}
        try:
            av, bv = a.subs_exact(val), b.subs_exact(val)
            for r, rv in ((a + b, av + bv), (a - b, av - bv), (a * b, av * bv)):
                if r.subs_exact(val) != rv:
                    bad += 1
            if not b.is_zero() and bv != 0:
                if (a / b).subs_exact(val) != av / bv:
                    bad += 1
        except ZeroDivisionError:
            continue
    return bad


if __name__ == "__main__":
    x, y, s = Rat.var('x'), Rat.var('y'), Rat.var('s')
    print((s * x) / s, (x * x - y * y) / (x - y), x / (x + y) + y / (x + y), Rat.const(1) / x - Rat.const(1) / (x * (x + Rat.const(1))))
    r = vidx('r')
    RULES[r] = (x * x + y * y).n
    R = Rat.var('r')
    print(R * R, (x / R) * (x / R) + (y / R) * (y / R))
    print("selftest failures:", selftest())
